#!/usr/bin/env python3
"""Property check driver (DESIGN.md 2.4-2.7).

  tools/check.py <PROPERTY> [--tier quick|thorough] [--replay FILE]

exit 0: every obligation tagged with the property was discharged on the current /repo working tree
exit 1: an obligation failed  -> prints `VIOLATION property=<id> replay=<path>`
exit 2: undecided (lost anchor, unsupported construct, solver resource limit, tool failure)
"""
import argparse
import hashlib
import json
import os
import re
import shutil
import subprocess
import sys
import time

ROOT = os.path.dirname(os.path.dirname(os.path.abspath(__file__)))
REPO = os.environ.get('PSC_REPO', '/repo')
CACHE = os.path.join(ROOT, '.cache')
sys.path.insert(0, os.path.join(ROOT, 'tools'))
import gen  # noqa: E402
from extract import LostAnchor  # noqa: E402

FEATURES = {
    'std': ['--features', 'derive,max-encoded-len,bytes'],
    'nostd': ['--no-default-features', '--features', 'derive,max-encoded-len,bytes'],
    'nostd_chain': ['--no-default-features', '--features', 'derive,max-encoded-len,bytes,chain-error'],
}
ENV = dict(os.environ, CARGO_NET_OFFLINE='true')


class Undecided(Exception):
    pass


def log(*a):
    print(*a, flush=True)


def repo_hash():
    h = hashlib.sha256()
    paths = []
    for base in ('src', 'derive/src'):
        for dp, _dn, fn in os.walk(os.path.join(REPO, base)):
            for f in fn:
                paths.append(os.path.join(dp, f))
    for f in ('Cargo.toml', 'Cargo.lock', 'build.rs', 'derive/Cargo.toml'):
        paths.append(os.path.join(REPO, f))
    for p in sorted(paths):
        if os.path.exists(p):
            h.update(p.encode())
            h.update(open(p, 'rb').read())
    return h.hexdigest()[:20]


def expand(config):
    """rustc's own macro expansion of the current working tree (build cache keyed by the source hash)."""
    os.makedirs(CACHE, exist_ok=True)
    key = repo_hash()
    out = os.path.join(CACHE, 'exp_%s_%s.rs' % (config, key))
    if os.path.exists(out) and os.path.getsize(out) > 0 and not os.environ.get('VERIF_NO_CACHE'):
        return out, key, True
    tdir = os.path.join(CACHE, 'target-expand')
    cmd = ['cargo', '+nightly', 'rustc', '--lib', '--offline'] + FEATURES[config] + ['--', '-Zunpretty=expanded']
    env = dict(ENV, CARGO_TARGET_DIR=tdir)
    p = subprocess.run(cmd, cwd=REPO, env=env, stdout=subprocess.PIPE, stderr=subprocess.PIPE, text=True)
    if p.returncode != 0:
        raise Undecided('expansion of /repo failed (config %s): %s' % (config, p.stderr[-2000:]))
    # drop older expansions of this config
    for f in os.listdir(CACHE):
        if f.startswith('exp_%s_' % config) and f != os.path.basename(out):
            os.unlink(os.path.join(CACHE, f))
    with open(out, 'w') as f:
        f.write(p.stdout)
    return out, key, False


def templates():
    d = os.path.join(ROOT, 'verus')
    return [os.path.join(d, f) for f in sorted(os.listdir(d)) if f.endswith('.rs.in') or f.endswith('.py')]


def generate(config, tag, tier='quick', degrade=None):
    exp, key, cached = expand(config)
    gdir = os.path.join(CACHE, 'gen_%s' % tag)
    os.makedirs(gdir, exist_ok=True)
    rs = os.path.join(gdir, 'psc_%s.rs' % config)
    meta = os.path.join(gdir, 'psc_%s.meta.json' % config)
    flags = ['std'] if config == 'std' else [config]
    if tier == 'thorough':
        flags.append('all_tuples')
    es, ex = None, None
    if tag in ('C05', 'C13', 'C01', 'C03', 'C07', 'C11', 'C12') and config == 'std':
        import family
        seed = int(os.environ.get('VERIF_SEED', '0') or 0)
        try:
            fp, defs, ftext = family.build(seed, tier, key)
        except RuntimeError as e:
            raise Undecided(str(e))
        es, ex = {'family': fp}, {'family_defs': defs}
    try:
        m = gen.generate(exp, templates(), rs, meta, flags, es, ex, tag=tag, degrade=degrade)
    except LostAnchor as e:
        raise Undecided('lost anchor: %s' % e)
    except gen.TemplateError as e:
        raise Undecided('template error: %s' % e)
    m['expanded_cached'] = cached
    m['repo_hash'] = key
    return rs, m


_ERR_HEAD = re.compile(r'^(error(?:\[E\d+\])?): (.*)$')
_SPAN = re.compile(r'^\s*--> (\S+?):(\d+):(\d+)')


def parse_errors(stderr):
    """split rustc-style diagnostics into (kind, message, [lines], text)."""
    out = []
    cur = None
    for l in stderr.split('\n'):
        m = _ERR_HEAD.match(l)
        if m:
            if cur:
                out.append(cur)
            cur = {'kind': m.group(1), 'msg': m.group(2), 'lines': [], 'text': [l]}
            continue
        if l.startswith('note:') or l.startswith('warning:'):
            if cur:
                out.append(cur)
            cur = None
            continue
        if cur is not None:
            cur['text'].append(l)
            m2 = _SPAN.match(l)
            if m2:
                cur['lines'].append(int(m2.group(2)))
            else:
                m3 = re.match(r'^\s*(\d+)\s*\|', l)
                if m3:
                    cur['lines'].append(int(m3.group(1)))
    if cur:
        out.append(cur)
    return [e for e in out if not e['msg'].startswith('aborting due to')]


UNDECIDED_PAT = re.compile(r'rlimit|Resource limit|timed out|timeout|not supported|unsupported|The verifier does not yet support|panicked|internal compiler error|must have a decreases clause|decreases clause is required', re.I)


def run_verus(rs, modules, tag, rlimit=None):
    cmd = ['verus', os.path.basename(rs), '--output-json', '--time-expanded', '--multiple-errors', '4']
    if rlimit:
        cmd += ['--rlimit', str(rlimit)]
    for m in modules or []:
        cmd += ['--verify-only-module', m]
    t0 = time.time()
    # hard wall-clock limit: z3 does not always honour its resource limit (seen: 2 h inside one query); a run that hits it is
    # undecided, never an alarm
    wall = int(os.environ.get('PSC_VERUS_WALL_S', '2400'))
    import signal

    class _P:
        pass
    p = _P()
    try:
        pr = subprocess.Popen(cmd, cwd=os.path.dirname(rs), stdout=subprocess.PIPE, stderr=subprocess.PIPE, text=True, start_new_session=True)
    except Exception as e:
        raise Undecided('verus could not be run: %s' % e)
    try:
        p.stdout, p.stderr = pr.communicate(timeout=wall)
        p.returncode = pr.returncode
    except subprocess.TimeoutExpired:
        # kill the whole session: z3 children outlive a killed verus and keep the pipes open
        try:
            os.killpg(pr.pid, signal.SIGKILL)
        except Exception:
            pass
        try:
            pr.communicate(timeout=30)
        except Exception:
            pass
        raise Undecided('verus exceeded the wall-clock limit of %d s (modules %s)' % (wall, ' '.join(modules or [])[:300]))
    dt = time.time() - t0
    try:
        js = json.loads(p.stdout)
    except Exception:
        js = None
    return {'rc': p.returncode, 'json': js, 'stderr': p.stderr, 'wall_s': dt, 'cmd': ' '.join(cmd)}


def attribute(meta, line):
    """map a line of the generated file to the obligation (extracted fn) or lemma that contains it."""
    best = None
    for f in meta['fns']:
        if f['lines'][0] <= line <= f['lines'][1]:
            best = f
    if best is None:
        # template-written proof text (lemma / law): attribute to the innermost enclosing module
        inner = None
        for mname, (a, b) in meta.get('module_lines', {}).items():
            if b is not None and a <= line <= b and (inner is None or a >= inner[1]):
                inner = (mname, a)
        lem = None
        for l in meta.get('lemmas', []):
            # a `//@lemma <id>` marker names the proof fn that follows it (up to the next marker / extracted fn)
            if l['line'] <= line and (lem is None or l['line'] > lem['line']) and (inner is None or l['line'] >= inner[1]):
                lem = l
        if lem is not None and not any(lem['line'] < f['lines'][0] <= line for f in meta['fns']) and line - lem['line'] < 80:
            best = {'id': lem['id'], 'anchor': 'lemma %s (module %s)' % (lem['id'], lem.get('module')), 'mode': 'lemma', 'lines': [lem['line'], line]}
        elif inner:
            best = {'id': 'proof.%s' % inner[0], 'anchor': 'template proof text in module %s' % inner[0], 'mode': 'lemma', 'lines': [line, line]}
    return best


def _module_of_line(meta, line):
    inner = None
    for mname, (a, b) in meta.get('module_lines', {}).items():
        if b is not None and a <= line <= b and (inner is None or a >= inner[1]):
            inner = (mname, a)
    return inner[0] if inner else None


def _verus_pass(rs, meta, sel, tag, rlimit):
    res = run_verus(rs, sel, tag, rlimit=rlimit)
    js = res['json']
    if js is None:
        raise Undecided('verus produced no JSON (rc=%d): %s' % (res['rc'], res['stderr'][-1500:]))
    vr = js.get('verification-results', {})
    errs = parse_errors(res['stderr'])
    funcs = []
    for mt in js.get('times-ms', {}).get('smt', {}).get('smt-run-module-times', []):
        for fb in mt.get('function-breakdown', []):
            funcs.append({'module': mt['module'], 'function': fb['function'], 'mode': fb.get('mode:', fb.get('mode')),
                          'success': fb['success'], 'time_us': fb.get('time-micros', 0), 'rlimit': fb.get('rlimit', 0)})
    failures = []
    undecided = []
    if vr.get('encountered-vir-error') or (vr.get('encountered-error') and not funcs and not errs):
        undecided.append('verus front-end error: ' + res['stderr'][-1500:])
    for e in errs:
        text = '\n'.join(e['text'])
        where = None
        for ln in e['lines']:
            a = attribute(meta, ln)
            if a and a['mode'] == 'verified':
                where = a
        if where is None:
            for ln in e['lines']:
                a = attribute(meta, ln)
                if a:
                    where = a
                    break
        item = {'msg': e['msg'], 'lines': e['lines'], 'obligation': where['id'] if where else None,
                'anchor': where['anchor'] if where else None, 'text': text[:6000]}
        if e['kind'] != 'error' or e['kind'].startswith('error[') or UNDECIDED_PAT.search(e['msg']):
            undecided.append(item)
        elif where and where['id'] in (meta.get('new_closures') or []):
            # the function now contains a closure it did not have when its contract was written: Verus knows nothing about an
            # exec closure without a spec, so a failed proof here says nothing about the code (refactoring to combinator
            # style is the typical cause) -- undecided, unless a Kani twin holds a counterexample
            item['msg'] = 'proof failed in a function that gained a closure without a specification (%s)' % e['msg']
            undecided.append(item)
        elif e['kind'] == 'error' and re.search(r'postcondition|precondition|assertion|invariant|decreases|overflow|underflow|bounds|index|unreach|arithmetic|division|recommend|callee.requires|termination|may be out of range|not satisfied|failed', e['msg']):
            failures.append(item)
        else:
            undecided.append(item)
    return res, vr, funcs, failures, undecided


def verus_property_run(prop, config, tag, tier, extra_modules=None):
    """Generate, select modules tagged with `prop`, verify; returns a result dict."""
    return _verus_property_run(prop, config, tag, tier, extra_modules, degrade=set(), depth=0)


def _verus_property_run(prop, config, tag, tier, extra_modules, degrade, depth):
    rs, meta = generate(config, tag, tier, degrade=sorted(degrade))
    mods = sorted(m for m, d in meta['modules'].items() if prop in d['props'])
    lemma_mods = sorted(set(l['module'] for l in meta['lemmas'] if prop in l['props']))
    sel = sorted(set(mods + lemma_mods + [m for m in (extra_modules or []) if m in meta['modules']]))
    if not sel:
        raise Undecided('no Verus module is tagged with %s' % prop)
    rl = 200 if tier == 'thorough' else 40
    res, vr, funcs, failures, undecided = _verus_pass(rs, meta, sel, tag, rl)
    # second pass: a function that ran out of its resource limit is retried alone (its module only) with ten times
    # the limit before it is reported as undecided -- rlimit exhaustion on the unchanged tree must not depend on the
    # family seed or on solver luck
    def _is_rl(u):
        return isinstance(u, dict) and re.search(r'rlimit|Resource limit', u['msg'])
    rl_mods = set()
    for u in undecided:
        if _is_rl(u):
            mm = _module_of_line(meta, (u['lines'] or [0])[0])
            if mm:
                rl_mods.add(mm)
    retried = None
    if rl_mods and len(rl_mods) <= 6:
        res2, vr2, funcs2, failures2, undecided2 = _verus_pass(rs, meta, sorted(rl_mods), tag, rl * 10)
        keep = lambda it: not (isinstance(it, dict) and _module_of_line(meta, (it['lines'] or [0])[0]) in rl_mods)
        funcs = [f for f in funcs if f['module'] not in rl_mods] + funcs2
        failures = [f for f in failures if keep(f)] + failures2
        undecided = [u for u in undecided if keep(u)] + undecided2
        retried = {'modules': sorted(rl_mods), 'rlimit': rl * 10, 'wall_s': round(res2['wall_s'], 1), 'cmd': res2['cmd']}
        res['wall_s'] += res2['wall_s']
    # rustc type errors (error[E....]) => undecided
    # a compile (rustc) error inside a function whose module does not serve this property -- typically a hint or a slice
    # signature that names a local the code no longer has -- stops the whole file: regenerate with that function reduced
    # to its contract (external_body) and try again; the property that owns the module still reports it as undecided
    if depth < 3 and not funcs:
        selset = set(sel)
        foreign = set()
        blocking = False
        for u in undecided:
            if not (isinstance(u, dict) and u.get('obligation')):
                continue
            f_ = [f for f in meta['fns'] if f['id'] == u['obligation']]
            if f_ and not any(f_[0]['module'] == m or f_[0]['module'].startswith(m + '::') for m in selset) and f_[0]['mode'] == 'verified':
                foreign.add(u['obligation'])
            else:
                blocking = True
        if foreign and not blocking and not (foreign <= degrade):
            return _verus_property_run(prop, config, tag, tier, extra_modules, degrade | foreign, depth + 1)
    return {'rs': rs, 'meta': meta, 'modules': sel, 'verus': res, 'funcs': funcs, 'failures': failures,
            'undecided': undecided, 'vr': vr, 'retried': retried}


def load_known():
    p = os.path.join(ROOT, 'known_findings.json')
    if not os.path.exists(p):
        return {'findings': [], 'fixed': []}
    return json.load(open(p))


def write_replay(prop, obligation, payload):
    d = os.path.join(ROOT, 'replays')
    os.makedirs(d, exist_ok=True)
    safe = re.sub(r'[^A-Za-z0-9_.-]', '_', obligation or 'unknown')
    p = os.path.join(d, '%s-%s.json' % (prop, safe))
    with open(p, 'w') as f:
        json.dump(payload, f, indent=1)
    return p


def main():
    ap = argparse.ArgumentParser()
    ap.add_argument('prop')
    ap.add_argument('--tier', default=os.environ.get('VERIF_TIER', 'quick'))
    ap.add_argument('--replay')
    a = ap.parse_args()
    seed = int(os.environ.get('VERIF_SEED', '0') or 0)
    if a.replay:
        return replay(a.replay)
    import props
    t0 = time.time()
    try:
        rc = props.run(a.prop, a.tier, seed, t0)
    except Exception as e:
        # this file runs as __main__ while props imports it as `check`: the two Undecided/LostAnchor classes differ,
        # so match by name.  Anything else is an internal error of the machinery: undecided too, never an alarm.
        kind = type(e).__name__
        if kind not in ('Undecided', 'LostAnchor'):
            import traceback
            traceback.print_exc()
            kind = 'internal error ' + kind
        log('UNDECIDED property=%s reason=%s: %s' % (a.prop, kind, str(e)[:3000]))
        rc = 2
    sys.exit(rc)


def replay(path):
    d = json.load(open(path))
    log(json.dumps({k: d[k] for k in d if k not in ('verifier_output',)}, indent=1)[:4000])
    log(d.get('verifier_output', '')[:6000])
    import props
    return props.replay(d)


if __name__ == '__main__':
    main()
