#!/usr/bin/env python3
"""dev helper: tools/famfull.py <tier> <rlimit> -- verify all family modules of the C05 file in one verus run (seed from VERIF_SEED)"""
import sys,os,subprocess,json,time
sys.path.insert(0,'/verif/tools')
import check
tier=sys.argv[1]; rl=sys.argv[2]
rs,meta=check.generate('std','C05',tier)
mods=[x for x in sorted(meta['modules']) if x.startswith('fam_')]
cmd=['timeout','-k','5','1200','verus',os.path.basename(rs),'--rlimit',rl,'--output-json','--time-expanded']
for m in mods: cmd+=['--verify-only-module',m]
t0=time.time()
p=subprocess.run(cmd,cwd=os.path.dirname(rs),stdout=subprocess.PIPE,stderr=subprocess.PIPE,text=True,start_new_session=True)
print('wall %.0f rc %d'%(time.time()-t0,p.returncode))
try:
    d=json.loads(p.stdout)
except Exception:
    print(p.stderr[-1500:]); sys.exit(1)
print(d['verification-results'])
t=0
for m in d['times-ms'].get('smt',{}).get('smt-run-module-times',[]):
    for f in m['function-breakdown']:
        t+=f['time-micros']
        if not f['success'] or f['time-micros']>2000000: print(f['function'], f['time-micros']//1000, f['success'], f.get('rlimit'))
print('total smt ms',t//1000)
if d['verification-results'].get('encountered-error') and not d['verification-results'].get('errors'):
    import re
    print([l for l in p.stderr.split('\n') if 'error' in l][:5])
