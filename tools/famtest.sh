#!/bin/bash
# dev helper: tools/famtest.sh <seed> [n]  -- verify all family modules of a seed at rlimit 40, list slow/failed functions
sd=$1; n=${2:-12}
cd /verif
mods=$(python3 - <<PY
import sys
sys.path.insert(0,'/verif/tools')
import family
print(' '.join('--verify-only-module fam_%s'%d['name'] for d in family.FIXED+family.random_defs($sd,$n) if d['name']!='FEnumEmpty'))
PY
)
FAMILY=$sd LINES_MAX=12 tools/mk.sh $mods 2>&1 | tail -3
python3 - <<'PY'
import json
d=json.load(open('/verif/.cache/gen/psc.out.json'))
tot=0
for m in d['times-ms']['smt']['smt-run-module-times']:
    for f in m['function-breakdown']:
        tot+=f['time-micros']
        if f['time-micros']>1500000 or not f['success']: print(f['function'], f['time-micros']//1000, f['success'], f.get('rlimit'))
print('total smt ms', tot//1000)
PY
