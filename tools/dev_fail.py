#!/usr/bin/env python3
import json, sys, os
sys.path.insert(0, os.path.dirname(os.path.abspath(__file__)))
import check
d = '/verif/.cache/gen'
meta = json.load(open(d + '/psc.meta.json'))
errs = check.parse_errors(open(d + '/psc.err.txt').read())
for e in errs:
    ids = []
    for ln in e['lines']:
        a = check.attribute(meta, ln)
        if a and a['id'] not in ids:
            ids.append(a['id'])
    print('%-60s %s  lines=%s' % (e['msg'][:60], ids, e['lines'][:6]))
