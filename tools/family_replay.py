"""Definition-directed witness search for failed derive obligations, replayed natively against /repo.
(Verus gives no counterexample; for a family definition the extreme values are the natural candidates.)"""
import os
import re
import shutil
import subprocess
import tempfile

import family

REPO = os.environ.get('PSC_REPO', '/repo')


def max_val(ty):
    ty = ty.strip()
    if ty in family.INTS:
        return '%s::MAX' % ty
    if ty == 'bool':
        return 'true'
    if ty == 'T':
        return 'u64::MAX'
    m = re.match(r'Option<(.*)>$', ty)
    if m:
        return 'Some(%s)' % max_val(m.group(1))
    m = re.match(r'Vec<(.*)>$', ty)
    if m:
        return 'vec![%s]' % max_val(m.group(1))
    if ty.startswith('('):
        depth = 0
        parts = []
        cur = ''
        for c in ty[1:-1]:
            if c in '<(':
                depth += 1
            if c in '>)':
                depth -= 1
            if c == ',' and depth == 0:
                parts.append(cur)
                cur = ''
            else:
                cur += c
        parts.append(cur)
        return '(%s)' % ', '.join(max_val(p) for p in parts)
    return 'Default::default()'


def candidates(d):
    g = '::<u64>' if d['generics'] else ''
    out = []
    if d['kind'] == 'struct':
        if d['shape'] == 'unit':
            out.append(d['name'])
        elif d['shape'] == 'named':
            out.append('%s%s { %s }' % (d['name'], g, ', '.join('%s: %s' % (f['name'], max_val(f['ty'])) for f in d['fields'])))
        else:
            out.append('%s%s(%s)' % (d['name'], g, ', '.join(max_val(f['ty']) for f in d['fields'])))
    else:
        for v in d['variants']:
            if v['skip']:
                continue
            if v['shape'] == 'unit':
                out.append('%s%s::%s' % (d['name'], g, v['name']))
            elif v['shape'] == 'named':
                out.append('%s%s::%s { %s }' % (d['name'], g, v['name'], ', '.join('%s: %s' % (f['name'], max_val(f['ty'])) for f in v['fields'])))
            else:
                out.append('%s%s::%s(%s)' % (d['name'], g, v['name'], ', '.join(max_val(f['ty']) for f in v['fields'])))
    return out


def replay_mel(d):
    """returns dict(replayed=bool, value=..., encoded_len=.., declared=..) for `encode().len() <= max_encoded_len()`"""
    tmp = tempfile.mkdtemp(prefix='psc_famreplay_')
    try:
        os.makedirs(os.path.join(tmp, 'src'))
        with open(os.path.join(tmp, 'Cargo.toml'), 'w') as f:
            f.write('[package]\nname = "psc_famreplay"\nversion = "0.0.0"\nedition = "2021"\n[dependencies]\n'
                    'parity-scale-codec = { path = "%s", features = ["derive", "max-encoded-len"] }\n[workspace]\n' % REPO)
        shutil.copy(os.path.join(REPO, 'Cargo.lock'), os.path.join(tmp, 'Cargo.lock'))
        gt = '::<u64>' if d['generics'] else ''
        body = ['#![allow(dead_code, unused_imports)]', 'use parity_scale_codec::{Encode, Decode, MaxEncodedLen, Compact};', family.def_src(d), 'fn main() {',
                '    let declared = <%s%s as MaxEncodedLen>::max_encoded_len();' % (d['name'], ('<u64>' if d['generics'] else ''))]
        for i, c in enumerate(candidates(d)):
            body.append('    { let v = %s; let n = v.encode().len(); println!("CANDIDATE %d len={} declared={}", n, declared); if n > declared { println!("WITNESS %d"); } }' % (c, i, i))
        body.append('}')
        with open(os.path.join(tmp, 'src', 'main.rs'), 'w') as f:
            f.write('\n'.join(body) + '\n')
        env = dict(os.environ, CARGO_NET_OFFLINE='true', CARGO_TARGET_DIR=os.path.join(tmp, 'target'))
        p = subprocess.run(['cargo', 'run', '--offline', '-q'], cwd=tmp, env=env, stdout=subprocess.PIPE, stderr=subprocess.STDOUT, text=True, timeout=900)
        cands = candidates(d)
        for m in re.finditer(r'WITNESS (\d+)', p.stdout):
            i = int(m.group(1))
            line = [l for l in p.stdout.split('\n') if l.startswith('CANDIDATE %d ' % i)][0]
            return {'replayed': True, 'definition': family.def_src(d), 'value': cands[i], 'observed': line,
                    'how': 'definition-directed candidate (extreme field values) run natively: v.encode().len() > max_encoded_len()'}
        return {'replayed': False, 'output': p.stdout[-1500:]}
    finally:
        shutil.rmtree(tmp, ignore_errors=True)


def replay_wf(d):
    """all-variants-skipped enum: run `encode()` natively in a child process; a crash/overflow is the witness"""
    tmp = tempfile.mkdtemp(prefix='psc_famreplay_')
    try:
        os.makedirs(os.path.join(tmp, 'src'))
        with open(os.path.join(tmp, 'Cargo.toml'), 'w') as f:
            f.write('[package]\nname = "psc_famreplay"\nversion = "0.0.0"\nedition = "2021"\n[dependencies]\n'
                    'parity-scale-codec = { path = "%s", features = ["derive", "max-encoded-len"] }\n[workspace]\n' % REPO)
        shutil.copy(os.path.join(REPO, 'Cargo.lock'), os.path.join(tmp, 'Cargo.lock'))
        v = d['variants'][0]['name'] if d['variants'] else None
        if v is None:
            return {'replayed': False, 'output': 'enum has no variants: no value exists'}
        body = ['#![allow(dead_code, unused_imports)]', 'use parity_scale_codec::{Encode, Decode, MaxEncodedLen, Compact};', family.def_src(d), 'fn main() {',
                '    let v = %s::%s; let n = v.encode().len(); println!("ENCODED len={}", n);' % (d['name'], v), '}']
        with open(os.path.join(tmp, 'src', 'main.rs'), 'w') as f:
            f.write('\n'.join(body) + '\n')
        env = dict(os.environ, CARGO_NET_OFFLINE='true', CARGO_TARGET_DIR=os.path.join(tmp, 'target'))
        p = subprocess.run(['cargo', 'run', '--offline', '-q'], cwd=tmp, env=env, stdout=subprocess.PIPE, stderr=subprocess.STDOUT, text=True, timeout=900)
        if 'ENCODED len=0' in p.stdout and p.returncode == 0:
            return {'replayed': False, 'output': p.stdout[-500:]}
        return {'replayed': True, 'definition': family.def_src(d), 'value': '%s::%s' % (d['name'], v), 'observed': 'exit status %d: %s' % (p.returncode, p.stdout[-400:]),
                'how': 'encode() of the skipped variant run natively in a child process'}
    finally:
        shutil.rmtree(tmp, ignore_errors=True)
