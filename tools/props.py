"""Per-property configuration and the generic runner (evidence, known findings, VIOLATION lines)."""
import json
import os
import re
import sys
import time

import check
from check import ROOT, Undecided, log

# ---------------------------------------------------------------------------------------------
# Which engines serve which property.  Verus modules are selected by the `//@module ... props=`
# tags in the templates (marker-driven); Kani harness groups are listed in kani/registry.json.

LEVEL = {
    'C05': 'translation_validation',
    'C10': 'model_checking',
    'C19': 'proof',
}

GENERAL_ASSUMPTIONS = [
    'spec: verus/00_prelude.rs.in (le, compact, compact_dec) and the per-impl spec_enc/accepts definitions are the SCALE format (cross-validated by the round-trip / canonicity lemmas, not by an external authority)',
    'extraction: `cargo +nightly rustc -- -Zunpretty=expanded` prints the items rustc compiles; rewrite rules R1..R14 of DESIGN.md 2.1 preserve semantics (each firing is recorded per function in the evidence)',
    'debug-profile semantics (arithmetic overflow is an obligation, so release wrap-around is excluded by proof)',
    'size preconditions: an encoding fits in usize (out.len() + |enc| <= usize::MAX); fewer than 2^32 nested container levels',
    'Verus 0.2026.09.13 / z3 and Kani 0.68 / CBMC 6.11 are sound',
]


def known_for(prop):
    k = check.load_known()
    return [f for f in k.get('findings', []) if f.get('property') == prop]


def match_known(prop, item):
    for f in known_for(prop):
        if f.get('obligation') and f['obligation'] == item.get('obligation'):
            sig = f.get('witness_regex')
            if not sig or re.search(sig, item.get('text', '') + json.dumps(item.get('witness', ''))):
                return f
    return None


def run(prop, tier, seed, t0):
    import kani_run
    ev_path = os.path.join(ROOT, 'evidence', '%s.json' % prop)
    os.makedirs(os.path.dirname(ev_path), exist_ok=True)
    if os.path.exists(ev_path):
        os.unlink(ev_path)
    level = LEVEL.get(prop, 'proof')
    violations = []
    undecided = []
    known_hits = []
    cov = {'obligations': 0, 'discharged': 0, 'checker_cmd': '', 'trusted_base': [], 'samples': [],
           'functions_under_contract': [], 'verus': {}, 'kani': {}, 'bounded_standins': [], 'not_decided': [], 'rewrite_rules_fired': {}}
    cmds = []

    # ---- Verus --------------------------------------------------------------------------------
    configs = ['std']
    if prop == 'C20':
        configs = ['std', 'nostd', 'nostd_chain']
    vres_all = {}
    extra_modules = {}
    if prop == 'C20':
        # obligation 1 (syntactic): every function under contract has byte-identical extracted text in every
        # configuration; a function whose text differs (or that exists only in some configurations) is verified
        # in every configuration where it exists (obligation 2) -- its module is added to the selection.
        metas = {}
        for cfgname in configs:
            try:
                _rs, metas[cfgname] = check.generate(cfgname, prop, tier)
            except Undecided as e:
                undecided.append('verus/%s: %s' % (cfgname, str(e)[:1500]))
        configs = [c for c in configs if c in metas]
        ids = {}
        for cfgname, m in metas.items():
            for f in m['fns']:
                ids.setdefault(f['id'], {})[cfgname] = (f['sha'], f['module'])
        same = 0
        differing = []
        for fid, per in sorted(ids.items()):
            shas = set(x[0] for x in per.values())
            if len(per) == len(configs) and len(shas) == 1:
                same += 1
            else:
                differing.append({'id': fid, 'configs': {c: per[c][0] for c in per}})
                for c in per:
                    extra_modules.setdefault(c, set()).add(per[c][1])
        cov['obligations'] += same
        cov['discharged'] += same
        cov['config_identity'] = {'functions_identical_in_all_configs': same, 'functions_differing': differing,
                                  'configs': {c: metas[c]['repo_hash'] for c in metas}}
        if tier == 'thorough':
            for c in configs:
                extra_modules[c] = set(metas[c]['modules'].keys())
    for cfgname in configs:
        try:
            v = check.verus_property_run(prop, cfgname, prop, tier, extra_modules=sorted(extra_modules.get(cfgname, [])))
        except Undecided as e:
            if 'no Verus module is tagged' in str(e):
                v = None
            else:
                # lost anchor / unsupported construct while generating or type-checking: the Verus side is undecided
                # for this configuration; the Kani harnesses below still run on the compiled code (they may hold a
                # counterexample, which is a violation in its own right).
                undecided.append('verus/%s: %s' % (cfgname, str(e)[:1500]))
                v = None
        vres_all[cfgname] = v
        if v is None:
            continue
        meta = v['meta']
        cmds.append('(cd .cache/gen_%s && %s)' % (prop, v['verus']['cmd']))
        nfun = len(v['funcs'])
        nok = sum(1 for f in v['funcs'] if f['success'])
        cov['obligations'] += nfun
        cov['discharged'] += nok
        cov['verus'][cfgname] = {
            'modules': v['modules'], 'functions_checked': nfun, 'functions_discharged': nok,
            'verified_count_reported': v['vr'].get('verified'), 'errors_reported': v['vr'].get('errors'),
            'smt_time_ms': sum(f['time_us'] for f in v['funcs']) // 1000, 'wall_s': round(v['verus']['wall_s'], 1),
            'backend': 'z3 (via Verus)', 'generated_file_sha256': meta['sha_generated'], 'repo_source_hash': meta['repo_hash'],
            'expansion_from_build_cache': meta['expanded_cached'],
        }
        selmods = set(v['modules'])
        for f in meta['fns']:
            if f['module'] in selmods or any(f['module'].startswith(m + '::') for m in selmods):
                if cfgname == configs[0]:
                    cov['functions_under_contract'].append({'id': f['id'], 'anchor': f['anchor'], 'src_sha': f['sha'], 'rules': f['rules'], 'mode': f['mode']})
                for r in f['rules']:
                    rr = re.sub(r'x\d+$', '', r)
                    cov['rewrite_rules_fired'][rr] = cov['rewrite_rules_fired'].get(rr, 0) + 1
        for dg in meta.get('degraded', []) or []:
            cov['trusted_base'].append('verus: %s reduced to its contract for this run (its module does not serve %s and its anchors were lost: %s)' % (dg['id'], prop, dg['why'][:160]))
        for ln, txt in meta['assumption_scan']:
            if cfgname == configs[0]:
                cov['trusted_base'].append('verus: ' + txt)
        for it in v['failures']:
            it['engine'] = 'verus/' + cfgname
            violations.append(it)
        for it in v['undecided']:
            undecided.append(it if isinstance(it, str) else '%s @ %s: %s' % (it['msg'], it.get('obligation'), it['text'][:600]))
        if cfgname == configs[0]:
            for f in v['funcs'][:6]:
                cov['samples'].append({'engine': 'verus', 'module': f['module'], 'function': f['function'], 'mode': f['mode'], 'discharged': f['success'], 'smt_us': f['time_us']})
        # syntactic obligations (termination of the mutually recursive Encode defaults for derived impls)
        for w in meta.get('wf_obligations', []):
            if prop != 'C05':
                break
            cov['obligations'] += 1
            cov.setdefault('syntactic_obligations', []).append({'id': w['id'], 'ok': w['ok'], 'overrides': w['overrides']})
            if w['ok']:
                cov['discharged'] += 1
            else:
                violations.append({'engine': 'syntactic', 'obligation': w['id'], 'anchor': w['impl'],
                                   'msg': 'derived `impl Encode` overrides none of encode_to/using_encoded/encode: the trait defaults call each other forever',
                                   'text': 'definition: %s\nexpanded impl header: %s\nmethods overridden: %s' % (w['definition'], w['impl'], w['overrides']),
                                   'witness': None})
        if prop == 'C16' and cfgname == configs[0]:
            el = meta.get('encode_like', [])
            refl = [e for e in el if e['kind'] == 'reflexive']
            cov['obligations'] += len(refl)
            cov['discharged'] += len(refl)
            cov['encode_like_impls'] = {'found_in_expansion': len(el), 'lemmas_proved_by_verus': len([e for e in el if e['kind'] == 'lemma']),
                                        'reflexive_syntactic': len(refl), 'not_decided': [e['impl'] for e in el if e['kind'] == 'not decided'],
                                        'thorough_only': len([e for e in el if e['kind'].startswith('tuple')])}
        # vacuity guard: canaries must fail
        can = [l for l in meta['lemmas'] if l['id'].startswith('canary.')]
        cov['verus'][cfgname]['canaries'] = len(can)

    # ---- Kani ---------------------------------------------------------------------------------
    k = None if os.environ.get('PSC_NO_KANI') else kani_run.run_for_property(prop, tier)
    if k is not None:
        cmds.append(k['cmd'])
        cov['kani'] = k['summary']
        for h in k['harnesses']:
            if h['complete']:
                cov['obligations'] += 1
                if h['status'] == 'SUCCESS':
                    cov['discharged'] += 1
            else:
                cov['bounded_standins'].append({'harness': h['name'], 'bound': h['bound'], 'status': h['status'], 'wall_s': h['wall_s']})
            if h['status'] == 'FAILURE':
                violations.append({'engine': 'kani', 'obligation': 'kani.' + h['name'], 'msg': 'Kani harness failed', 'text': h['output'][-6000:], 'witness': h.get('witness'), 'anchor': h.get('what'), 'paired_obligation': h.get('obligation')})
            elif h['status'] != 'SUCCESS':
                if not h['complete'] and h['status'] in ('RESOURCE', 'UNWIND', 'NOT-RUN'):
                    # a bounded stand-in that did not finish within its budget explored nothing: it is reported in the
                    # evidence (bounded_standins[].status) and on stderr, but it is not an undecided *obligation* --
                    # the property held on everything that was explored
                    log('NOTE property=%s bounded harness %s did not complete (%s): not counted' % (prop, h['name'], h['status']))
                    cov.setdefault('bounded_not_completed', []).append(h['name'])
                else:
                    undecided.append('kani harness %s: %s' % (h['name'], h['status']))
        for h in k['harnesses'][:4]:
            cov['samples'].append({'engine': 'kani', 'harness': h['name'], 'what': h.get('what'), 'complete': h['complete'], 'bound': h['bound'], 'status': h['status']})
        cov['trusted_base'] += k.get('trusted', [])

    if cov['obligations'] == 0 and not violations and not (level == 'model_checking' and cov['bounded_standins']):
        undecided.append('no obligation was generated for %s (vacuity guard)' % prop)

    # ---- definition-directed witnesses for failed derive obligations, replayed natively ---------------
    fam_defs = {}
    for v in vres_all.values():
        if v is not None:
            for d in v['meta'].get('family_defs', []) or []:
                fam_defs[d['name']] = d
    for it in violations:
        ob = it.get('obligation') or ''
        try:
            import family_replay
            m1 = re.match(r'fam\.(\w+)\.max_encoded_len$', ob)
            m2 = re.match(r'wf\.encode_defaults\.(\w+)$', ob)
            if m1 and m1.group(1) in fam_defs and not it.get('witness'):
                it['witness'] = family_replay.replay_mel(fam_defs[m1.group(1)])
            elif m2 and m2.group(1) in fam_defs and not it.get('witness'):
                it['witness'] = family_replay.replay_wf(fam_defs[m2.group(1)])
        except Exception as e:  # a failed replay attempt never hides the violation
            it['witness'] = {'replayed': False, 'note': 'replay attempt failed: %s' % e}

    # ---- pair Verus failures with the counterexample of their Kani twin ------------------------------
    kfail = {v.get('paired_obligation'): v for v in violations if v.get('engine') == 'kani' and v.get('paired_obligation')}
    merged = []
    for it in violations:
        if it.get('engine', '').startswith('verus') and it.get('obligation') in kfail:
            kv = kfail[it['obligation']]
            it['witness'] = kv.get('witness')
            it['text'] = (it.get('text') or '') + '\n--- paired Kani harness ' + kv['obligation'] + ' ---\n' + (kv.get('text') or '')[-3000:]
            kv['_merged'] = True
    violations = [v for v in violations if not v.get('_merged')]

    # ---- a proof that no longer goes through is not a counterexample: when the obligation has a *complete* Kani twin
    # (full-domain check of the same contract on the compiled code) and that twin passes, the Verus failure is reported
    # as undecided (typical cause: a behaviour-preserving refactoring that needs new hints), never as a violation.
    if k is not None:
        twins_ok = set(h.get('obligation') for h in k['harnesses'] if h.get('obligation') and h['complete'] and h['status'] == 'SUCCESS')
        kept = []
        for it in violations:
            if it.get('engine', '').startswith('verus') and it.get('obligation') in twins_ok:
                undecided.append('proof of %s failed but its complete Kani twin passes (no failing input exists within the harness domain): undecided' % it.get('obligation'))
            else:
                kept.append(it)
        violations = kept

    # ---- classify -----------------------------------------------------------------------------
    real = []
    for it in violations:
        kf = match_known(prop, it)
        if kf:
            known_hits.append((kf, it))
        else:
            real.append(it)
    rc = 0
    for kf, it in known_hits:
        log('KNOWN-FINDING: property=%s %s' % (prop, kf['what']))
    for it in real:
        wit = it.get('witness')
        payload = {'property': prop, 'obligation': it.get('obligation'), 'anchor': it.get('anchor'), 'engine': it.get('engine'),
                   'message': it.get('msg'), 'witness': wit, 'verifier_output': it.get('text'),
                   'replayed_against_real_code': bool(wit and wit.get('replayed')),
                   'note': 'no-failing-input-found' if not (wit and wit.get('replayed')) else 'concrete input replayed natively against /repo'}
        p = write_replay_file(prop, it.get('obligation'), payload)
        tail = '' if (wit and wit.get('replayed')) else ' no-failing-input-found'
        log('VIOLATION property=%s replay=%s obligation=%s%s' % (prop, p, it.get('obligation'), tail))
        rc = 1
    if rc == 0 and undecided:
        for u in undecided[:10]:
            log('UNDECIDED property=%s %s' % (prop, str(u)[:1500]))
        rc = 2

    # ---- evidence -----------------------------------------------------------------------------
    import propinfo
    info = propinfo.INFO.get(prop, {})
    cov['checker_cmd'] = ' ; '.join(cmds)
    cov['not_decided'] = info.get('not_decided', [])
    cov['explanation'] = info.get('explanation', '')
    cov['trusted_base'] = sorted(set(cov['trusted_base']))
    cov['known_findings_hit'] = [kf['what'] for kf, _ in known_hits]
    if level == 'translation_validation':
        fam = [f for f in cov['functions_under_contract'] if f['id'].startswith('fam.')]
        progs = sorted(set(f['id'].split('.')[1] for f in fam) | set(w['id'].split('.')[-1] for w in cov.get('syntactic_obligations', [])))
        cov['programs'] = len(progs)
        cov['program_names'] = progs
        cov['disagreements_checked'] = cov['obligations']
    if level == 'model_checking':
        ok_h = sorted(set(b['harness'] for b in cov['bounded_standins'] if b['status'] == 'SUCCESS'))
        cov['evaluations'] = cov['obligations'] + len(cov['bounded_standins'])
        cov['distinct_nontrivial'] = cov['discharged'] + len(ok_h)
        cov['rule'] = ('one evaluation per Kani harness run (each symbolic over all inputs within its stated bound); a harness counts as '
                       'distinct and non-trivial when it has a distinct name/target type and CBMC reported VERIFICATION SUCCESSFUL with a non-zero number of checks')
        cov['exhaustive'] = False
    ev = {
        'property_id': prop, 'tier': tier, 'seed': seed, 'level': level, 'coverage': cov,
        'assumptions': GENERAL_ASSUMPTIONS + info.get('assumptions', []),
        'wall_s': round(time.time() - t0, 1), 'violations': len(real),
        'undecided': [str(u)[:400] for u in undecided[:20]],
    }
    with open(ev_path, 'w') as f:
        json.dump(ev, f, indent=1)
    log('%s: obligations=%d discharged=%d bounded=%d violations=%d known=%d undecided=%d wall=%.0fs -> rc=%d' % (
        prop, cov['obligations'], cov['discharged'], len(cov['bounded_standins']), len(real), len(known_hits), len(undecided), time.time() - t0, rc))
    return rc


def write_replay_file(prop, obligation, payload):
    return check.write_replay(prop, obligation, payload)


def replay(d):
    """Re-run the obligation named in a replay file against the current tree."""
    prop = d['property']
    log('re-running check for %s (obligation %s)' % (prop, d.get('obligation')))
    return run(prop, 'quick', 0, time.time())
