#!/usr/bin/env python3
"""Item index over rustc's `-Zunpretty=expanded` output of /repo.

Items are addressed by *path* (module path, normalised item header, fn name) -- never by line
number.  The text handed out is the verbatim slice of the compiler's expansion (attributes and doc
comments stripped).  A lookup that finds nothing raises LostAnchor (-> exit 2, "undecided").
"""
import hashlib
import re
import sys


class LostAnchor(Exception):
    pass


def _skip_string(s, i):
    """s[i] == '"'; return index after closing quote."""
    n = len(s)
    i += 1
    while i < n:
        c = s[i]
        if c == '\\':
            i += 2
            continue
        if c == '"':
            return i + 1
        i += 1
    return n


def _skip_raw_string(s, i):
    """s[i] == 'r' followed by #*"; return index after end, or None if not a raw string."""
    j = i + 1
    n = len(s)
    hashes = 0
    while j < n and s[j] == '#':
        hashes += 1
        j += 1
    if j < n and s[j] == '"':
        end = '"' + '#' * hashes
        k = s.find(end, j + 1)
        if k < 0:
            return n
        return k + len(end)
    return None


_CHAR_RE = re.compile(r"'(\\x[0-9a-fA-F]{2}|\\u\{[0-9a-fA-F_]+\}|\\.|[^\\'])'")
_IDENT = re.compile(r'[A-Za-z_][A-Za-z0-9_]*')


def scan(s, i, end, on_token=None):
    """Generic scanner: yields (pos, ch) for structural chars outside strings/comments/chars."""
    n = end
    while i < n:
        c = s[i]
        if c == '/' and i + 1 < n and s[i + 1] == '/':
            j = s.find('\n', i)
            i = n if j < 0 else j + 1
            continue
        if c == '/' and i + 1 < n and s[i + 1] == '*':
            depth = 1
            i += 2
            while i < n and depth:
                if s.startswith('/*', i):
                    depth += 1
                    i += 2
                elif s.startswith('*/', i):
                    depth -= 1
                    i += 2
                else:
                    i += 1
            continue
        if c == '"':
            i = _skip_string(s, i)
            continue
        if c in 'rb' and (i == 0 or not (s[i - 1].isalnum() or s[i - 1] == '_')):
            # raw / byte strings
            j = i
            if s[j] == 'b' and j + 1 < n and s[j + 1] == '"':
                i = _skip_string(s, j + 1)
                continue
            if s[j] == 'b' and j + 1 < n and s[j + 1] == "'":
                m = _CHAR_RE.match(s, j + 1)
                if m:
                    i = m.end()
                    continue
            if s[j] == 'b' and j + 1 < n and s[j + 1] == 'r':
                j += 1
            if s[j] == 'r':
                r = _skip_raw_string(s, j)
                if r is not None:
                    i = r
                    continue
            m = _IDENT.match(s, i)
            if m:
                yield (i, s[i:m.end()])
                i = m.end()
            else:
                i += 1
            continue
        if c == "'":
            m = _CHAR_RE.match(s, i)
            if m:
                i = m.end()
                continue
            i += 1  # lifetime
            continue
        if c.isalpha() or c == '_':
            m = _IDENT.match(s, i)
            yield (i, s[i:m.end()])
            i = m.end()
            continue
        if c in '{}()[];':
            yield (i, c)
        i += 1


def match_close(s, i, end=None):
    """s[i] is an opening bracket; return index of its matching closer."""
    end = len(s) if end is None else end
    pairs = {'{': '}', '(': ')', '[': ']'}
    stack = []
    for pos, tok in scan(s, i, end):
        if tok in pairs:
            stack.append(pairs[tok])
        elif tok in ('}', ')', ']'):
            if not stack or stack[-1] != tok:
                raise ValueError('unbalanced at %d' % pos)
            stack.pop()
            if not stack:
                return pos
    raise ValueError('unterminated bracket at %d' % i)


def norm(h):
    h = re.sub(r'\s+', ' ', h).strip()
    h = re.sub(r'\s*([<>(),:&\[\];])\s*', lambda m: m.group(1), h)
    h = h.replace(',>', '>')
    return h


class Item:
    __slots__ = ('kind', 'name', 'header', 'text', 'start', 'end', 'body', 'children', 'mod', 'parent', 'attrs')

    def __init__(self, kind, name, header, text, start, end, body, mod, attrs):
        self.kind = kind      # fn | impl | trait | mod | struct | enum | const | other
        self.name = name
        self.header = header  # normalised text before the body '{' (attrs/doc stripped)
        self.text = text      # verbatim text of the item without leading attrs/docs
        self.start = start
        self.end = end
        self.body = body      # (start,end) of body braces within source, or None
        self.children = []
        self.mod = mod
        self.parent = None
        self.attrs = attrs

    def sha(self):
        return hashlib.sha256(self.text.encode()).hexdigest()[:16]


_KINDS = ('fn', 'impl', 'trait', 'mod', 'struct', 'enum', 'union', 'const', 'static', 'type', 'use', 'extern', 'macro_rules', 'macro')
_QUAL = ('pub', 'unsafe', 'async', 'default', 'crate', 'in', 'self', 'super')


class Source:
    def __init__(self, text):
        self.s = text
        self.items = []
        self._parse_block(0, len(text), '', None, self.items)

    # -- parsing ---------------------------------------------------------------------------
    def _parse_block(self, i, end, modpath, parent, out):
        s = self.s
        while True:
            i = self._skip_ws_comments(i, end)
            if i >= end:
                return
            attrs = []
            # attributes
            while i < end and s[i] == '#':
                j = i + 1
                if j < end and s[j] == '!':
                    j += 1
                while j < end and s[j].isspace():
                    j += 1
                if j < end and s[j] == '[':
                    k = match_close(s, j, end)
                    attrs.append(s[i:k + 1])
                    i = self._skip_ws_comments(k + 1, end)
                else:
                    break
            if i >= end:
                return
            start = i
            kind, name, body_open, item_end = self._item_extent(i, end)
            header = norm(s[start:body_open]) if body_open is not None else norm(s[start:item_end + 1].rstrip(';'))
            body = (body_open, item_end) if body_open is not None and s[item_end] == '}' else None
            it = Item(kind, name, header, s[start:item_end + 1], start, item_end + 1, body, modpath, attrs)
            it.parent = parent
            out.append(it)
            if kind == 'const' and re.match(r'const\s+_\s*:\s*\(\s*\)\s*=\s*\{', s[start:item_end + 1]):
                # derive output: `const _: () = { impl ... };` -- the impls inside are ordinary items of this module
                bo = s.index('{', start)
                bc = match_close(s, bo, end)
                self._parse_block(bo + 1, bc, modpath, parent, out)
            if body and kind in ('impl', 'trait'):
                self._parse_block(body[0] + 1, body[1], modpath, it, it.children)
            elif body and kind == 'mod':
                sub = (modpath + '::' + name) if modpath else name
                self._parse_block(body[0] + 1, body[1], sub, it, it.children)
            i = item_end + 1

    def _skip_ws_comments(self, i, end):
        s = self.s
        while i < end:
            if s[i].isspace():
                i += 1
            elif s.startswith('//', i):
                j = s.find('\n', i)
                i = end if j < 0 else j + 1
            elif s.startswith('/*', i):
                j = s.find('*/', i)
                i = end if j < 0 else j + 2
            else:
                break
        return i

    def _item_extent(self, i, end):
        """Return (kind, name, body_open_index|None, last_index_of_item)."""
        s = self.s
        kind = None
        name = None
        toks = scan(s, i, end)
        depth = 0
        prev_ident = None
        want_name = False
        for pos, tok in toks:
            if tok in ('(', '['):
                close = match_close(s, pos, end)
                # fast-forward generator
                for p2, _t2 in toks:
                    if p2 >= close:
                        break
                continue
            if tok == '{':
                close = match_close(s, pos, end)
                if kind in ('const', 'static', 'type', 'use', 'extern', None):
                    # block inside an expression / use-group: keep scanning for ';'
                    for p2, _t2 in toks:
                        if p2 >= close:
                            break
                    if kind is None:
                        return ('other', None, pos, close)
                    continue
                return (kind, name, pos, close)
            if tok == ';':
                return (kind or 'other', name, None, pos)
            if tok in ('}', ')', ']'):
                raise ValueError('unexpected closer at %d' % pos)
            # identifier
            if kind is None:
                if tok in _KINDS:
                    kind = tok
                    want_name = kind in ('fn', 'trait', 'mod', 'struct', 'enum', 'union', 'const', 'static', 'type', 'macro')
                    if kind == 'macro_rules':
                        want_name = True
                    continue
                if tok in _QUAL:
                    continue
                # something else (e.g. a macro invocation) -- treat as 'other'
                kind = 'other'
                continue
            if want_name and name is None:
                if tok in ('unsafe', 'fn') and kind == 'const':
                    # `const fn` / `const unsafe fn`
                    if tok == 'fn':
                        kind = 'fn'
                    continue
                name = tok
                want_name = False
        raise ValueError('item starting at %d has no end' % i)

    # -- lookup ----------------------------------------------------------------------------
    def walk(self, items=None):
        for it in (self.items if items is None else items):
            yield it
            if it.children:
                for c in self.walk(it.children):
                    yield c

    def find_container(self, mod, header):
        h = norm(header)
        hits = [it for it in self.walk() if it.mod == mod and it.kind in ('impl', 'trait') and it.header == h]
        if len(hits) != 1:
            raise LostAnchor('%d items match `%s` in mod `%s`' % (len(hits), h, mod))
        return hits[0]

    def find_fn(self, mod, header, name):
        if header is None:
            hits = [it for it in self.walk() if it.mod == mod and it.kind == 'fn' and it.name == name and (it.parent is None or it.parent.kind == 'mod')]
        else:
            c = self.find_container(mod, header)
            hits = [it for it in c.children if it.kind == 'fn' and it.name == name]
        if len(hits) != 1:
            raise LostAnchor('%d fns named `%s` under `%s` in mod `%s`' % (len(hits), name, header, mod))
        return hits[0]

    def find_item(self, mod, kind, name):
        hits = [it for it in self.walk() if it.mod == mod and it.kind == kind and it.name == name]
        if len(hits) != 1:
            raise LostAnchor('%d %s items named `%s` in mod `%s`' % (len(hits), kind, name, mod))
        return hits[0]

    def impls(self, pattern=None, mod=None):
        rx = re.compile(pattern) if pattern else None
        for it in self.walk():
            if it.kind == 'impl' and '$' not in it.text and (mod is None or it.mod == mod):
                if rx is None or rx.search(it.header):
                    yield it


def split_fn(text):
    """Split fn item text into (signature, body) where body includes the braces; body None for decls."""
    last = None
    toks = scan(text, 0, len(text))
    for pos, tok in toks:
        if tok in ('(', '['):
            close = match_close(text, pos)
            for p2, _ in toks:
                if p2 >= close:
                    break
        elif tok == '{':
            last = pos
            break
    if last is None:
        return text.rstrip().rstrip(';'), None
    return text[:last].rstrip(), text[last:]


if __name__ == '__main__':
    src = Source(open(sys.argv[1]).read())
    for it in src.walk():
        if it.kind in ('impl', 'trait', 'fn', 'struct', 'enum', 'const'):
            ind = '    ' if it.parent is not None and it.parent.kind in ('impl', 'trait') else ''
            print('%s[%s] %s%s' % (it.mod, it.kind, ind, it.header if it.kind in ('impl', 'trait') else (it.name or it.header)))
