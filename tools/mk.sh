#!/bin/bash
# dev helper: generate + verify   usage: tools/mk.sh [verus args]

cd /verif
mkdir -p .cache/gen
python3 -c "import sys,shutil; sys.path.insert(0,\"/verif/tools\"); import check; shutil.copy(check.expand(\"std\")[0], \"/verif/.cache/exp_std.rs\")"
python3 tools/gen.py .cache/exp_std.rs .cache/gen/psc.rs .cache/gen/psc.meta.json $(ls verus/*.rs.in verus/*.py | sort -t/ -k2) --flag std ${FLAGS:+--flag $FLAGS} ${FAMILY:+--family $FAMILY} || exit $?
cd .cache/gen
timeout ${TMO:-900} verus psc.rs --output-json --time-expanded --rlimit 40 "$@" > psc.out.json 2> psc.err.txt; rc=$?
grep -E "^(error|warning: unused)" -A12 psc.err.txt | head -${LINES_MAX:-120}
python3 - <<'PY'
import json
d=json.load(open('psc.out.json'))
print(d['verification-results'])
PY
exit $rc
