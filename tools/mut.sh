#!/bin/bash
# dev helper: apply a sed mutation to /repo, re-expand, regenerate, verify selected modules, revert.
# usage: tools/mut.sh '<sed expr>' <file> [verus args...]
cd /repo || exit 1
expr="$1"; file="$2"; shift 2
sed -i "$expr" "$file"
if git diff --quiet; then echo "MUTATION DID NOT APPLY"; exit 3; fi
git --no-pager diff --stat | tail -1
CARGO_NET_OFFLINE=true CARGO_TARGET_DIR=/verif/.cache/target-expand cargo +nightly rustc --lib --offline --features derive,max-encoded-len,bytes -- -Zunpretty=expanded > /verif/.cache/exp_mut.rs 2>/verif/.cache/exp_mut.err || { echo "EXPAND FAILED"; tail -5 /verif/.cache/exp_mut.err; git checkout -- .; exit 4; }
git checkout -- .
cd /verif
python3 tools/gen.py .cache/exp_mut.rs .cache/gen/psc.rs .cache/gen/psc.meta.json $(ls verus/*.rs.in verus/*.py | sort -t/ -k2) --flag std || exit $?
cd .cache/gen
verus psc.rs --output-json --time-expanded --rlimit 40 "$@" > psc.out.json 2> psc.err.txt
cd /verif; python3 tools/dev_fail.py | head -8
python3 -c "
import json;print(json.load(open('/verif/.cache/gen/psc.out.json'))['verification-results'])"
