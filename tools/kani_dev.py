#!/usr/bin/env python3
import sys, json, time
sys.path.insert(0,'/verif/tools')
import kani_impl
reg = kani_impl.load_registry()
names = sys.argv[1:]
sel = [h for h in reg if (not names or h['name'] in names)]
t0=time.time()
r = kani_impl.run_harnesses(sel, jobs=int(__import__('os').environ.get('J','8')), timeout=7200)
open('/verif/.cache/kani_raw.log','w').write(r['out'])
per = kani_impl.parse(r['out'], sel)
for h in sel:
    p = per.get(kani_impl.full_name(h))
    print('%-24s %-10s %s' % (h['name'], p['status'] if p else 'NOT-RUN', p['time_s'] if p else ''))
    if p and p['status'] != 'SUCCESS':
        print('\n'.join(l for l in p['output'].split('\n') if 'Failed Checks' in l or 'File:' in l)[:800])
if not per:
    print(r['out'][-5000:])
print('wall', round(time.time()-t0))
