#!/usr/bin/env python3
"""C05: a seeded family of type definitions over the derive attribute grammar.

For every definition this module produces, *from the definition alone*:
  * the Rust source with the derive attributes (expanded by the real proc-macro of /repo each run), and
  * the layout it declares (fields in order, representation per field, variant index by precedence
    attribute > discriminant > position among non-skipped), from which verus/90_family.py writes spec_enc/accepts.
"""
import hashlib
import json
import os
import random
import re
import shutil
import subprocess

ROOT = os.path.dirname(os.path.dirname(os.path.abspath(__file__)))
REPO = os.environ.get('PSC_REPO', '/repo')
CACHE = os.path.join(ROOT, '.cache')

INTS = {'u8': 1, 'u16': 2, 'u32': 4, 'u64': 8, 'u128': 16, 'i8': 1, 'i16': 2, 'i32': 4, 'i64': 8, 'i128': 16}
UINTS = ['u8', 'u16', 'u32', 'u64', 'u128']


def rand_type(rng, depth=0, generics=()):
    r = rng.random()
    if generics and r < 0.15:
        return rng.choice(list(generics))
    if r < 0.6 or depth >= 2:
        return rng.choice(list(INTS.keys()) + ['bool'])
    if r < 0.8:
        return 'Option<%s>' % rand_type(rng, depth + 1, generics)
    if r < 0.9:
        return '(%s, %s)' % (rand_type(rng, depth + 1, generics), rand_type(rng, depth + 1, generics))
    return 'Vec<%s>' % rand_type(rng, depth + 1, generics)


def rand_fields(rng, shape, n, generics, allow_skip=True):
    fs = []
    for i in range(n):
        r = rng.random()
        name = ('f%d' % i) if shape == 'named' else str(i)
        if r < 0.2:
            fs.append({'name': name, 'ty': rng.choice(UINTS), 'attr': 'compact'})
        elif r < 0.28:
            t = rng.choice(UINTS)
            fs.append({'name': name, 'ty': t, 'attr': 'encoded_as', 'as': 'Compact<%s>' % t})
        elif r < 0.4 and allow_skip:
            fs.append({'name': name, 'ty': rng.choice(['u8', 'u32', 'bool', 'u64']), 'attr': 'skip'})
        else:
            fs.append({'name': name, 'ty': rand_type(rng, 0, generics), 'attr': None})
    return fs


# fixed corner cases that must always be present (they are part of the property statement)
FIXED = [
    {'name': 'FUnit', 'kind': 'struct', 'generics': [], 'shape': 'unit', 'fields': [], 'derives': ['Encode', 'Decode', 'MaxEncodedLen']},
    {'name': 'FSingle', 'kind': 'struct', 'generics': [], 'shape': 'tuple', 'fields': [{'name': '0', 'ty': 'u64', 'attr': None}], 'derives': ['Encode', 'Decode', 'MaxEncodedLen']},
    {'name': 'FSingleSkip', 'kind': 'struct', 'generics': [], 'shape': 'named',
     'fields': [{'name': 'a', 'ty': 'u32', 'attr': 'skip'}, {'name': 'b', 'ty': 'u16', 'attr': None}], 'derives': ['Encode', 'Decode', 'MaxEncodedLen']},
    {'name': 'FCompact', 'kind': 'struct', 'generics': [], 'shape': 'named',
     'fields': [{'name': 'a', 'ty': 'u32', 'attr': 'compact'}, {'name': 'b', 'ty': 'u8', 'attr': None}], 'derives': ['Encode', 'Decode', 'MaxEncodedLen']},
    {'name': 'FEncodedAs', 'kind': 'struct', 'generics': [], 'shape': 'named',
     'fields': [{'name': 'a', 'ty': 'u64', 'attr': 'encoded_as', 'as': 'Compact<u64>'}, {'name': 'b', 'ty': 'bool', 'attr': None}], 'derives': ['Encode', 'Decode', 'MaxEncodedLen']},
    {'name': 'FGeneric', 'kind': 'struct', 'generics': ['T'], 'shape': 'named',
     'fields': [{'name': 't', 'ty': 'T', 'attr': None}, {'name': 'n', 'ty': 'u8', 'attr': None}], 'derives': ['Encode', 'Decode', 'MaxEncodedLen']},
    {'name': 'FEnum', 'kind': 'enum', 'generics': [], 'derives': ['Encode', 'Decode', 'MaxEncodedLen'], 'variants': [
        {'name': 'A', 'index': None, 'disc': None, 'skip': False, 'shape': 'unit', 'fields': []},
        {'name': 'B', 'index': 7, 'disc': None, 'skip': False, 'shape': 'tuple', 'fields': [{'name': '0', 'ty': 'u8', 'attr': None}, {'name': '1', 'ty': 'u32', 'attr': 'compact'}]},
        {'name': 'C', 'index': None, 'disc': None, 'skip': False, 'shape': 'named', 'fields': [{'name': 'x', 'ty': 'u16', 'attr': None}]},
        {'name': 'D', 'index': None, 'disc': None, 'skip': True, 'shape': 'unit', 'fields': []},
        {'name': 'E', 'index': None, 'disc': None, 'skip': False, 'shape': 'unit', 'fields': []},
    ]},
    {'name': 'FEnumDisc', 'kind': 'enum', 'generics': [], 'derives': ['Encode', 'Decode'], 'variants': [
        {'name': 'A', 'index': None, 'disc': 3, 'skip': False, 'shape': 'unit', 'fields': []},
        {'name': 'B', 'index': 10, 'disc': 4, 'skip': False, 'shape': 'unit', 'fields': []},
        {'name': 'C', 'index': None, 'disc': 200, 'skip': False, 'shape': 'unit', 'fields': []},
    ]},
    {'name': 'FEnumAllSkipped', 'kind': 'enum', 'generics': [], 'derives': ['Encode'], 'variants': [
        {'name': 'A', 'index': None, 'disc': None, 'skip': True, 'shape': 'unit', 'fields': []},
        {'name': 'B', 'index': None, 'disc': None, 'skip': True, 'shape': 'unit', 'fields': []},
    ]},
    {'name': 'FEnumEmpty', 'kind': 'enum', 'generics': [], 'derives': ['Encode', 'Decode'], 'variants': []},
]


def random_defs(seed, n):
    rng = random.Random(seed)
    defs = []
    for i in range(n):
        generics = ['T'] if rng.random() < 0.2 else []
        derives = ['Encode', 'Decode'] + (['MaxEncodedLen'] if rng.random() < 0.6 else [])
        if rng.random() < 0.55:
            shape = rng.choice(['named', 'named', 'tuple'])
            nf = rng.randint(1, 4)
            fields = rand_fields(rng, shape, nf, generics)
            if generics and not any(re.search(r'\bT\b', f['ty']) for f in fields):
                fields[0] = {'name': fields[0]['name'], 'ty': 'T', 'attr': None}
            if any('Vec<' in f['ty'] for f in fields) and 'MaxEncodedLen' in derives:
                derives.remove('MaxEncodedLen')
            defs.append({'name': 'R%dS' % i, 'kind': 'struct', 'generics': generics, 'shape': shape, 'fields': fields, 'derives': derives})
        else:
            nv = rng.randint(1, 4)
            vs = []
            used = set()
            pos = 0
            for j in range(nv):
                shape = rng.choice(['unit', 'tuple', 'named'])
                fields = rand_fields(rng, shape, rng.randint(1, 3), generics, allow_skip=False) if shape != 'unit' else []
                skip = rng.random() < 0.15
                index = None
                if not skip and rng.random() < 0.3:
                    index = rng.choice([x for x in range(0, 255) if x not in used and x >= 20])
                # effective index: attribute, else position among non-skipped; keep them distinct
                eff = index if index is not None else pos
                if not skip:
                    if eff in used:
                        index = max(used) + 1
                        eff = index
                    used.add(eff)
                    pos += 1
                vs.append({'name': 'V%d' % j, 'index': index, 'disc': None, 'skip': skip, 'shape': shape, 'fields': fields})
            if generics and not any(re.search(r'\bT\b', f['ty']) for v in vs for f in v['fields']):
                generics = []
            if any('Vec<' in f['ty'] for v in vs for f in v['fields']) and 'MaxEncodedLen' in derives:
                derives.remove('MaxEncodedLen')
            defs.append({'name': 'R%dE' % i, 'kind': 'enum', 'generics': generics, 'variants': vs, 'derives': derives})
    return defs


def variant_indices(d):
    """index byte per non-skipped variant: attribute > explicit discriminant > position among non-skipped variants."""
    out = {}
    pos = 0
    for v in d['variants']:
        if v['skip']:
            continue
        if v['index'] is not None:
            out[v['name']] = v['index']
        elif v['disc'] is not None:
            out[v['name']] = v['disc']
        else:
            out[v['name']] = pos
        pos += 1
    return out


def field_src(f, shape):
    attr = ''
    if f['attr'] == 'skip':
        attr = '#[codec(skip)] '
    elif f['attr'] == 'compact':
        attr = '#[codec(compact)] '
    elif f['attr'] == 'encoded_as':
        attr = '#[codec(encoded_as = "%s")] ' % f['as']
    if shape == 'named':
        return '%spub %s: %s' % (attr, f['name'], f['ty'])
    return '%spub %s' % (attr, f['ty'])


def def_src(d):
    g = ('<%s>' % ', '.join(d['generics'])) if d['generics'] else ''
    der = '#[derive(%s)]' % ', '.join(d['derives'])
    if d['kind'] == 'struct':
        if d['shape'] == 'unit':
            return '%s\npub struct %s;' % (der, d['name'])
        if d['shape'] == 'named':
            return '%s\npub struct %s%s { %s }' % (der, d['name'], g, ', '.join(field_src(f, 'named') for f in d['fields']))
        return '%s\npub struct %s%s(%s);' % (der, d['name'], g, ', '.join(field_src(f, 'tuple') for f in d['fields']))
    vs = []
    for v in d['variants']:
        a = ''
        if v['skip']:
            a += '#[codec(skip)] '
        if v['index'] is not None:
            a += '#[codec(index = %d)] ' % v['index']
        if v['shape'] == 'unit':
            body = v['name']
        elif v['shape'] == 'named':
            body = '%s { %s }' % (v['name'], ', '.join(field_src(f, 'named').replace('pub ', '') for f in v['fields']))
        else:
            body = '%s(%s)' % (v['name'], ', '.join(field_src(f, 'tuple').replace('pub ', '') for f in v['fields']))
        if v['disc'] is not None:
            body += ' = %d' % v['disc']
        vs.append(a + body)
    return '%s\npub enum %s%s { %s }' % (der, d['name'], g, ', '.join(vs))


def family(seed, tier):
    n = 12 if tier == 'quick' else 120
    return FIXED + random_defs(seed, n)


def build(seed, tier, repo_hash):
    """write the family crate, expand it with the real derive macros of /repo; returns (expanded path, defs)."""
    defs = family(seed, tier)
    src = ['#![allow(dead_code, unused_imports, non_camel_case_types)]',
           'use parity_scale_codec::{Encode, Decode, MaxEncodedLen, Compact};'] + [def_src(d) for d in defs]
    text = '\n'.join(src) + '\n'
    key = hashlib.sha256((repo_hash + text).encode()).hexdigest()[:20]
    out = os.path.join(CACHE, 'fam_%s.rs' % key)
    if os.path.exists(out) and os.path.getsize(out) > 0 and not os.environ.get('VERIF_NO_CACHE'):
        return out, defs, text
    d = os.path.join(CACHE, 'family_crate')
    shutil.rmtree(d, ignore_errors=True)
    os.makedirs(os.path.join(d, 'src'))
    with open(os.path.join(d, 'Cargo.toml'), 'w') as f:
        f.write('[package]\nname = "psc_family"\nversion = "0.0.0"\nedition = "2021"\n[dependencies]\n'
                'parity-scale-codec = { path = "%s", features = ["derive", "max-encoded-len"] }\n[workspace]\n' % REPO)
    shutil.copy(os.path.join(REPO, 'Cargo.lock'), os.path.join(d, 'Cargo.lock'))
    with open(os.path.join(d, 'src', 'lib.rs'), 'w') as f:
        f.write(text)
    env = dict(os.environ, CARGO_NET_OFFLINE='true', CARGO_TARGET_DIR=os.path.join(CACHE, 'target-family'))
    p = subprocess.run(['cargo', '+nightly', 'rustc', '--lib', '--offline', '--', '-Zunpretty=expanded'], cwd=d, env=env,
                       stdout=subprocess.PIPE, stderr=subprocess.PIPE, text=True)
    if p.returncode != 0:
        raise RuntimeError('family crate does not compile/expand: ' + p.stderr[-3000:])
    for f in os.listdir(CACHE):
        if f.startswith('fam_') and f.endswith('.rs') and f != os.path.basename(out):
            os.unlink(os.path.join(CACHE, f))
    with open(out, 'w') as f:
        f.write(p.stdout)
    shutil.rmtree(d, ignore_errors=True)
    return out, defs, text


if __name__ == '__main__':
    import sys
    for d in family(int(sys.argv[1]) if len(sys.argv) > 1 else 0, 'quick'):
        print(def_src(d))
