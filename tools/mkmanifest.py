#!/usr/bin/env python3
"""Writes MANIFEST.json from tools/propinfo.py (so the manifest always matches what is implemented)."""
import json
import os
import sys
sys.path.insert(0, os.path.dirname(os.path.abspath(__file__)))
import propinfo

ROOT = os.path.dirname(os.path.dirname(os.path.abspath(__file__)))
checks = []
na = []
for pid in ['C%02d' % i for i in range(1, 21)]:
    info = propinfo.INFO.get(pid)
    if not info or info.get('not_applicable'):
        na.append({'property_id': pid, 'reason': (info or {}).get('not_applicable', 'check not built yet (work in progress)')})
        continue
    checks.append({
        'property_id': pid,
        'quick_cmd': './check %s --tier quick' % pid,
        'thorough_cmd': './check %s --tier thorough' % pid,
        'evidence_file': '/verif/evidence/%s.json' % pid,
        'replay_cmd_template': './check --replay {path}',
        'engine': info.get('engine', 'verus+kani'),
        'level_claimed': {'category': info['level'], 'text': info['level_text'], 'design_ref': info.get('design_ref', 'DESIGN.md 3 / ' + pid)},
        'level_note': info['level_note'],
        'technique': info.get('technique', 'contract-based deductive verification (Verus contracts on extracted real code; Kani for leaf facts and bounded stand-ins)'),
    })
m = {
    'version': 1,
    'setup_cmd': './setup.sh',
    'hooks': {
        'guard': 'none (no hook is committed to /repo; Kani harnesses are injected as #[cfg(kani)] child modules into a scratch copy at check time)',
        'enable': 'n/a: checks read /repo working tree; scratch copies get `#[cfg(kani)] #[path=..] mod` lines appended',
        'baseline_off_cmd': 'cd /repo && cargo nextest run --workspace --no-fail-fast --tool-config-file pb:/w/lib/nextest.toml --profile pb --test-threads 8 --offline || cargo test --workspace --no-fail-fast --offline',
        'source_commits': [],
        'add_only': True,
    },
    'engines': [
        {'name': 'verus-extract', 'path': 'tools/gen.py', 'serves_properties': [c['property_id'] for c in checks],
         'kind_free_text': 'Verus 0.2026.09.13 on function bodies sliced from rustc -Zunpretty=expanded of /repo, under contracts in verus/*.rs.in'},
        {'name': 'kani-inject', 'path': 'tools/kani_impl.py', 'serves_properties': [c['property_id'] for c in checks],
         'kind_free_text': 'Kani 0.68 harnesses (kani/*.rs) compiled inside a scratch copy of the crate as child modules'},
    ],
    'checks': checks,
    'not_applicable': na,
    'notes': 'exit 2 = undecided (lost anchor / unsupported construct / solver limit), never an alarm. See DESIGN.md.',
}
with open(os.path.join(ROOT, 'MANIFEST.json'), 'w') as f:
    json.dump(m, f, indent=1)
print('MANIFEST: %d checks, %d not_applicable' % (len(checks), len(na)))
