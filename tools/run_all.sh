#!/bin/bash
# usage: tools/run_all.sh [quick|thorough] [ids...]  -- runs every registered check sequentially, prints a summary table
tier="${1:-quick}"; shift
cd "$(dirname "$0")/.."
ids="$@"
[ -z "$ids" ] && ids=$(python3 -c "import json;print(' '.join(c['property_id'] for c in json.load(open('MANIFEST.json'))['checks']))")
mkdir -p .cache
: > .cache/run_all_$tier.log
for p in $ids; do
  s=$(date +%s)
  ./check $p --tier $tier > .cache/run_all_$p.out 2>&1; rc=$?
  e=$(date +%s)
  echo "$p rc=$rc wall=$((e-s))s $(grep -E '^(VIOLATION|KNOWN-FINDING|UNDECIDED)' .cache/run_all_$p.out | head -3 | cut -c1-200 | tr '\n' '|')" | tee -a .cache/run_all_$tier.log
done
