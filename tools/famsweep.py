#!/usr/bin/env python3
"""dev helper: generate the C05 file for a tier/seed and verify every fam_* module separately with a wall limit."""
import json, os, subprocess, sys, time
sys.path.insert(0, os.path.dirname(os.path.abspath(__file__)))
import check
tier = sys.argv[1] if len(sys.argv) > 1 else 'thorough'
lim = int(sys.argv[2]) if len(sys.argv) > 2 else 60
rs, meta = check.generate('std', 'C05', tier)
mods = sorted(m for m in meta['modules'] if m.startswith('fam_') and '::' not in m)
print(len(mods), 'modules', rs)
bad = []
from concurrent.futures import ThreadPoolExecutor
def one(m):
    t0 = time.time()
    cmd = ['timeout', '-k', '5', str(lim), 'verus', os.path.basename(rs), '--rlimit', '40', '--verify-only-module', m, '--verify-only-module', m + '::lem', '--output-json']
    if (m + '::mel') in meta['modules']:
        cmd += ['--verify-only-module', m + '::mel']
    p = subprocess.run(cmd, cwd=os.path.dirname(rs), stdout=subprocess.PIPE, stderr=subprocess.PIPE, text=True, start_new_session=True)
    dt = time.time() - t0
    ok = False
    try:
        ok = json.loads(p.stdout)['verification-results']['success']
    except Exception:
        pass
    return m, ok, p.returncode, dt, p.stderr[-300:]
with ThreadPoolExecutor(8) as ex:
    for m, ok, rc, dt, err in ex.map(one, mods):
        if not ok or dt > 20:
            print('%-14s ok=%s rc=%s %.0fs %s' % (m, ok, rc, dt, '' if ok else err.replace('\n', ' | ')[-200:]))
            bad.append(m)
print('bad/slow:', bad)
