#!/bin/bash
# usage: tools/seed_regress.sh [dir...]  -- applies every seeded change in turn, runs the quick check of its property, undoes it;
# prints one line per seed: CAUGHT (exit 1 + VIOLATION), UNDECIDED (exit 2) or MISSED (exit 0)
cd "$(dirname "$0")/.."
dirs="$@"; [ -z "$dirs" ] && dirs=$(ls -d seeded/*/)
for d in $dirs; do
  d=${d%/}; id=$(basename $d); prop=${id%%-*}
  git -C /repo diff --quiet || { echo "/repo not clean"; exit 3; }
  git -C /repo apply "$PWD/$d/patch.diff" || { echo "$id patch does not apply"; continue; }
  # evidence files are rewritten by every run: keep the one from the unchanged tree and put it back afterwards
  mkdir -p .cache/ev_keep; cp -f evidence/$prop.json .cache/ev_keep/ 2>/dev/null
  out=$(./check $prop --tier quick 2>&1); rc=$?
  git -C /repo checkout -- .
  [ -f .cache/ev_keep/$prop.json ] && cp -f .cache/ev_keep/$prop.json evidence/$prop.json
  v=$(echo "$out" | grep -c "^VIOLATION")
  ob=$(echo "$out" | grep "^VIOLATION" | sed 's/.*obligation=//' | sort -u | tr '\n' ' ')
  case $rc in 1) r=CAUGHT;; 2) r=UNDECIDED;; 0) r=MISSED;; *) r="rc=$rc";; esac
  echo "$id $r violations=$v $ob"
done
