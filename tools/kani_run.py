"""Kani harness runner (filled in below)."""
import json
import os

from check import ROOT


def run_for_property(prop, tier):
    reg = os.path.join(ROOT, 'kani', 'registry.json')
    if not os.path.exists(reg):
        return None
    import kani_impl
    return kani_impl.run_for_property(prop, tier)
