"""Per-property notes that go into MANIFEST.json and the evidence files."""
FIX_COMMITS = []

_T = 'contract-based deductive verification: Verus pre/postconditions on the real function bodies (sliced from the compiler expansion each run) against a hand-written SCALE spec'

INFO = {
    'C03': {
        'level': 'proof',
        'level_text': 'Every Decode impl under contract is proved (Verus, unbounded) to return Ok(v) only when the consumed bytes are exactly the spec encoding of v and Err only when the input is outside the language (or a budget is exceeded); absence of panics, overflow, out-of-bounds and non-termination are the verifier\'s own obligations on the same real bodies.',
        'level_note': 'Trusted: the SCALE spec text, the extraction rules R1-R14, assumed core contracts (to/from_le_bytes wrappers, closed by complete Kani proofs), external_body items listed in evidence.coverage.trusted_base.',
        'technique': _T,
    },
    'C17': {'not_applicable': 'compile-time accept/reject of programs by rustc + proc-macro: no contract on code reachable by Verus/Kani can express or decide it (DESIGN.md C17)'},
}
