"""Per-property notes that go into MANIFEST.json and the evidence files."""
FIX_COMMITS = []

_T = 'contract-based deductive verification: Verus pre/postconditions on the real function bodies (sliced from the compiler expansion of /repo each run) against a hand-written SCALE spec; Kani for leaf facts, unsafe code (bounded) and counterexamples'
_TB = 'Trusted: the SCALE spec text (verus/00_prelude.rs.in + per-impl spec fns), extraction rules R1-R16, external_body items and assumed core/std contracts listed in evidence.coverage.trusted_base, soundness of Verus/z3 and Kani/CBMC.'

INFO = {
    'C01': {
        'level': 'proof',
        'level_text': 'Every Encode impl under contract is proved (Verus, all values, all lengths, all type compositions through the trait contract) to write exactly spec_enc(value), where spec_enc is written from the SCALE format; panic sites (expect on the length prefix) are proved unreachable under the stated element-count precondition.',
        'level_note': _TB + ' Not decided: bit sequences, Bytes, GenericArray; bulk transmute arms of encode_slice_no_len are a bounded Kani stand-in; floats are a complete finite Kani proof.',
        'technique': _T,
        'not_decided': ['BitSlice/BitVec/BitBox encode (bitvec internals outside both verifiers)', 'encode_slice_no_len primitive (transmute) arms: bounded stand-in only', 'default Encode::encode_to (closure capturing &mut): assumed in Verus, discharged per fixed-width type by Kani'],
    },
    'C03': {
        'level': 'proof',
        'level_text': 'Every Decode impl under contract is proved (Verus, unbounded) to return Ok(v) only when the consumed bytes are exactly the spec encoding of v and the input is in the language, and Err only when the input is outside the language (or a budget is exceeded); absence of panics, overflow, out-of-bounds and non-termination are the verifier\'s own obligations on the same real bodies.',
        'level_note': _TB + ' Unsafe decoders (arrays, Box, bulk Vec path) are bounded Kani stand-ins; BitVec/GenericArray not decided.',
        'technique': _T,
        'not_decided': ['[T;N]::decode_into, Box/Rc/Arc::decode_wrapped, read_vec_from_u8s (unsafe): bounded stand-ins', 'BTreeMap/BTreeSet/LinkedList::decode (from_iter over closure): bounded stand-ins', 'BitVec decode', 'physical stack exhaustion on recursive types'],
    },
    'C04': {
        'level': 'proof',
        'level_text': 'All five CompactRef encoders, five compact_len and five Compact decoders are proved against one width-free spec compact(x)/compact_dec(b): encoders produce compact(x), lengths equal |compact(x)|, decoders accept exactly canonical forms that fit the width and return that value.',
        'level_note': _TB + ' leading_zeros and to/from_le_bytes contracts are assumed in Verus and closed by complete (full-domain) Kani proofs; CompactRef::using_encoded (ArrayVec, unsafe set_len) is discharged by Kani.',
        'technique': _T,
        'not_decided': [],
    },
    'C05': {
        'level': 'translation_validation',
        'level_text': 'A seeded family of type definitions over the derive attribute grammar is expanded by the real derive macros each run; for every definition the generated encode_to/forwarders/decode/max_encoded_len are proved (Verus, all values) against the layout computed from the definition alone; termination of the Encode defaults is a syntactic obligation per derived impl. A proof per program, programs sampled (seeded) plus fixed corner cases.',
        'level_note': _TB + ' The "all definitions" quantifier is sampled; repr(transparent) decode_into and CompactAs not under contract.',
        'technique': 'translation validation of derive output: contract-based proof (Verus) per expanded program against a layout spec generated from the definition',
        'not_decided': ['repr(transparent) decode_into (pointer casts)', 'CompactAs derive', 'DecodeWithMemTracking derive', 'const-eval index checks (search_for_invalid_index / duplicate_info)'],
    },
    'C07': {
        'level': 'proof',
        'level_text': 'The four Encode methods are tied to one spec_enc by the trait contract; every override and the default bodies of encode/using_encoded/encoded_size (with SizeTracker) are proved; bulk vs element-wise agreement is proved for the element-wise arms and bounded-checked for the transmute arms.',
        'level_note': _TB + ' default encode_to is assumed in Verus (closure captures &mut) and discharged per fixed-width type by Kani.',
        'technique': _T,
        'not_decided': ['bulk transmute arms (encode and decode): bounded stand-ins', 'array bulk read: bounded stand-in', 'io::Write sinks: write_all contract assumed'],
    },
    'C08': {
        'level': 'proof',
        'level_text': 'Every decoder under contract is verified once for an arbitrary I: Input satisfying the Input contract (parametricity), and each provided Input implementation is verified against that contract, so results are a function of the byte stream only.',
        'level_note': _TB + ' IoReader (read_exact) and BytesCursor (bytes crate) rest on assumed contracts of std/bytes.',
        'technique': _T,
        'not_decided': ['IoReader::read (std read_exact contract assumed)', 'BytesCursor zero-copy path (bytes crate contracts assumed)'],
    },
    'C09': {
        'level': 'proof',
        'level_text': 'The reservation primitive on the decode path (Vec::reserve_exact) carries the precondition request <= MAX_PREALLOCATION bytes in its assumed spec; the real chunked decode loop is proved to satisfy it for every length and element size, and to terminate.',
        'level_note': _TB + ' Linear bound needs min_enc(T) >= 1 or size_of(T) == 0 for element types; see known findings. Maps/sets/lists (no reservation) and Box: bounded stand-ins; BitVec not decided.',
        'technique': _T,
        'not_decided': ['read_vec_from_u8s remaining_len guard (bounded Kani stand-in)', 'BTreeMap/BTreeSet/LinkedList node allocations (bounded)', 'BitVec', 'heap exhaustion itself (only request sizes are accounted)'],
    },
    'C11': {
        'level': 'proof',
        'level_text': 'Input carries an abstract depth state (open levels, room); every decoder is proved to need exactly need_depth(bytes) levels: Ok implies the room sufficed and the state is restored, Err implies the input is not in the language or need_depth exceeds the room; DepthTrackingInput and DecodeLimit are proved against exact budget arithmetic.',
        'level_note': _TB + ' 2^32 nested levels excluded by an explicit assumption at the depth counter increment; Box/maps/lists protocol sites bounded; machine stack not modelled.',
        'technique': _T,
        'not_decided': ['Box/BTreeMap/BTreeSet/LinkedList descend/ascend sites: bounded stand-ins', 'bytes of machine stack'],
    },
    'C12': {
        'level': 'proof',
        'level_text': 'MemTrackingInput is proved against exact budget arithmetic (saturating sum, fails iff the sum reaches the limit, combined with any wrapped budget); memory-limited decoding is proved transparent (Ok implies the same bytes/value relation as unlimited decoding) for every decoder under contract.',
        'level_note': _TB + ' The threshold U through the decoders (need_mem) is not yet threaded through the Decode contract: only the wrapper-level threshold and transparency are decided.',
        'technique': _T,
        'not_decided': ['single threshold U per input through composite decoders (need_mem not threaded yet)', 'U >= payload lemmas', 'derive field check (rustc behaviour)'],
    },
    'C13': {
        'level': 'proof',
        'level_text': 'Every MaxEncodedLen impl found in the expansion (marker-driven) is proved: the returned bound is usize::MAX or bounds |spec_enc(v)| for every value v.',
        'level_note': _TB + ' size_of facts for NonZero*/bool assumed (closed by Kani constants); RangeInclusive and Compact<()> impls not under contract; derived impls via the C05 family.',
        'technique': _T,
        'not_decided': ['ConstEncodedLen marker lemmas', 'encoded_fixed_size for arrays', 'RangeInclusive', 'derived MaxEncodedLen (see C05 family)'],
    },
    'C14': {
        'level': 'proof',
        'level_text': 'decode_all and decode_all_with_depth_limit are proved to succeed exactly when decoding accepts the whole input; the slice Input is proved to advance only on successful reads; tuple decoding is proved sequential.',
        'level_note': _TB,
        'technique': _T,
        'not_decided': ['strict-prefix rejection and concatenation lemmas over the spec (lemma layer)'],
    },
    'C15': {
        'level': 'proof',
        'level_text': 'append_or_new_impl is sliced at statement boundaries: the count arithmetic, the reallocation branch and the empty-input branch are proved against contracts in N (no wrap-around) for every old count and every number of appended items; the whole function incl. the in-place branch is checked by Kani, complete in the counts.',
        'level_note': _TB + ' ExactSizeIterator::len exact and for_each in order are assumed (std protocol); payload of the in-place branch bounded.',
        'technique': _T,
        'not_decided': ['element-wise tail (iter.for_each) rests on the assumed iterator protocol'],
    },
    'C02': {
        'level': 'proof',
        'level_text': 'Round trip is a theorem over the C01/C03 contracts: per type constructor, Verus proves the laws accepts(dec_bytes(v) ++ s) == Some(|dec_bytes(v)|), prefix closure and Encode/Decode coherence; the generic lemma decode_of_encode then shows that any result allowed by the Decode contract on encode(v) ++ s re-encodes to encode(v) and leaves exactly s. The decoders themselves are proved against that contract (C03).',
        'level_note': _TB + ' Value identity follows from equal encodings (injectivity of the spec is proved for compact integers/little-endian integers; stated, not separately proved, for composite views). Laws cover ints, bool, Option, Result, OptionBool, unit, tuples, Compact, Vec; inherits the bounded parts of C01/C03.',
        'technique': _T,
        'not_decided': ['laws for Box/Rc/Arc, arrays, maps/sets/lists, String, Duration, derived types', 'floats (bit equality): Kani', 'BitVec'],
    },
    'C18': {
        'level': 'proof',
        'level_text': 'Every DecodeLength impl found in the expansion (impl_len! instances and tuple delegation) is proved to return exactly the canonical Compact<u32> prefix value of the input; with C01 (collections encode compact(len) first) and the compact round-trip lemma this gives len(encode(c)) == c.len(). Decode::skip default is proved to accept/reject and advance exactly like decode.',
        'level_note': _TB + ' [T;N]::skip override and encoded_fixed_size of arrays are not under contract (array decode is unsafe: bounded Kani).',
        'technique': _T,
        'not_decided': ['[T;N]::skip override'],
    },
    'C19': {
        'level': 'proof',
        'level_text': 'Per-operation contracts of CountedInput are proved (Verus, unbounded, any wrapped Input, any prior counter incl. saturated): read/read_byte add exactly the delivered length on success with saturation and add nothing on failure; all other methods leave the counter unchanged. The fields are private and only these methods write them, so count() equals bytes delivered for every decoder by induction over its calls (meta-argument, stated).',
        'level_note': _TB + ' R13 inlines Result::inspect (closure capturing &mut self) by its definition; induction over a generic decoder\'s calls is not mechanised.',
        'technique': _T,
        'not_decided': ['the induction over arbitrary decoder call sequences is a stated meta-argument'],
    },
    'C20': {
        'level': 'proof',
        'level_text': 'The extraction is run for std, no_std and no_std+chain-error; every function under contract is shown to have byte-identical extracted text in all configurations (so the same proof applies), and every function whose text differs (Output for Vec<u8>) is verified in each configuration against the same contract. All other obligations treat Error as opaque and therefore hold verbatim in every configuration.',
        'level_note': _TB + ' Optional integrations (bit-vec, generic-array, serde) are not toggled in the quick tier; the std Output path rests on the assumed write_all contract.',
        'technique': _T + '; per-configuration extraction + syntactic identity of verified texts',
        'not_decided': ['optional integrations toggled (bit-vec, generic-array, bytes off)'],
    },
    'C17': {'not_applicable': 'compile-time accept/reject of programs by rustc + proc-macro: no contract on code reachable by Verus/Kani can express or decide it (DESIGN.md C17)'},
}
