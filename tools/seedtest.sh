#!/bin/bash
# usage: tools/seedtest.sh <patch.diff> <prop> [prop...]   -- apply a seeded change to /repo, run checks, undo
patch="$1"; shift
cd /repo || exit 1
git diff --quiet || { echo "/repo not clean"; exit 3; }
git apply "$patch" || { echo "patch does not apply"; exit 3; }
cd /verif
# evidence files are rewritten by every run: keep the ones from the unchanged tree and put them back afterwards
mkdir -p .cache/ev_keep; for p in "$@"; do cp -f evidence/$p.json .cache/ev_keep/ 2>/dev/null; done
for p in "$@"; do
  ./check $p 2>&1 | grep -E "^(VIOLATION|KNOWN-FINDING|UNDECIDED|C[0-9]+:)" | cut -c1-400
done
git -C /repo checkout -- .
for p in "$@"; do [ -f .cache/ev_keep/$p.json ] && { mkdir -p .cache/ev_seeded; cp -f evidence/$p.json .cache/ev_seeded/ 2>/dev/null; cp -f .cache/ev_keep/$p.json evidence/$p.json; }; done
git -C /repo status --short | head -3
