#!/bin/bash
# usage: tools/seedtest.sh <patch.diff> <prop> [prop...]   -- apply a seeded change to /repo, run checks, undo
patch="$1"; shift
cd /repo || exit 1
git diff --quiet || { echo "/repo not clean"; exit 3; }
git apply "$patch" || { echo "patch does not apply"; exit 3; }
cd /verif
for p in "$@"; do
  ./check $p 2>&1 | grep -E "^(VIOLATION|KNOWN-FINDING|UNDECIDED|C[0-9]+:)" | cut -c1-400
done
git -C /repo checkout -- .
git -C /repo status --short | head -3
