#!/usr/bin/env python3
"""Template processor: pastes the *real* function texts (sliced from rustc's macro expansion of /repo)
under the contract text kept in /verif/verus/*.rs.in, applying only the closed list of mechanical
rewrite rules R1..R12 (DESIGN.md 2.1).  Emits the Verus input file plus a JSON map
(line ranges -> obligation ids, source hashes, rules fired).

Directive language (lines starting with `//@`):
  //@module <name> props=C01,C03      tags the enclosing `mod <name>` (must follow its opening line)
  //@fn <id> :: <mod> | <header or -> | <fn name>
  //@+ <contract clause>              (directly after //@fn: inserted between signature and body)
  //@ ret <name>                      R12: name the return value
  //@ at after|before `<anchor>`      R8: ghost text insertion at a pattern anchor inside the body
  //@+ <ghost text>
  //@ sub `<from>` `<to>` <rule>      restricted textual rewrite, must match
  //@ subre `<regex>` `<to>` <rule>   same with a regex
  //@ external_body                   keep signature + contract, do not verify the body (assumption)
  //@ decl                            emit signature + contract only (trait method declaration)
  //@ bodyless-ok                     the source item is a declaration without body
  //@item <mod> | <kind> | <name>     paste a struct/enum/const item verbatim
  //@slice <id> :: <mod> | <header or -> | <fn> from `<anchor>` to `<anchor>`   R9 statement-range slice
"""
import hashlib
import json
import os
import re
import sys

sys.path.insert(0, os.path.dirname(os.path.abspath(__file__)))
from extract import Source, LostAnchor, split_fn, match_close, norm, scan  # noqa: E402


class TemplateError(Exception):
    pass


def anchor_regex(a):
    parts = a.split()
    return re.compile(r'\s*'.join(re.escape(p) for p in parts))


def _ticks(s):
    return re.findall(r'`([^`]*)`', s)


# ------------------------------------------------------------------------------------------------
# global rewrite rules

def rule_R1(text, fired):
    """panic sites -> vpanic() (requires false)."""
    out = []
    i = 0
    n = 0
    # remove the `let kind = ::core::panicking::AssertKind::X;` helper statements
    text2 = re.sub(r'let kind = ::core::panicking::AssertKind::\w+;\s*', '', text)
    if text2 != text:
        text = text2
    rx = re.compile(r'::core::panicking::(panic_fmt|panic_display|panic_explicit|unreachable_display|assert_failed|panic)\s*(::<[^>]*>)?\s*\(')
    while True:
        m = rx.search(text, i)
        if not m:
            out.append(text[i:])
            break
        out.append(text[i:m.start()])
        close = match_close(text, m.end() - 1)
        out.append('vpanic()')
        i = close + 1
        n += 1
    if n:
        fired.append('R1x%d' % n)
    return ''.join(out)


def rule_R3(sig_contract, body, fired):
    """`const { if !(P) { panic } }` at the start of a body -> requires P."""
    req = []
    rx = re.compile(r'const\s*\{\s*if\s*!\s*\(')
    while True:
        m = rx.search(body)
        if not m:
            break
        bopen = body.index('{', m.start())
        bclose = match_close(body, bopen)
        popen = m.end() - 1
        pclose = match_close(body, popen)
        req.append(re.sub(r'\b(?:core::)?mem::size_of::<', 'vstd::layout::size_of::<', body[popen + 1:pclose].strip()))
        body = body[:m.start()] + body[bclose + 1:].lstrip(';')
        fired.append('R3')
    return req, body


def rule_R4(body, fired):
    """nested `const _: () = { .. };` items inside a fn body (derive's compile-time index checks) are removed."""
    rx = re.compile(r'const\s+_\s*:\s*\(\s*\)\s*=\s*\{')
    while True:
        m = rx.search(body)
        if not m:
            return body
        bo = m.end() - 1
        bc = match_close(body, bo)
        tail = re.match(r'\s*;', body[bc + 1:])
        end = bc + 1 + (tail.end() if tail else 0)
        body = body[:m.start()] + body[end:]
        fired.append('R4')


def rule_R13_inspect(body, fired):
    """`X.inspect(|p| BLOCK)` -> `{ let r__ = X; match r__ { Ok(ref p) => BLOCK, Err(_) => {} } r__ }`
    (definition of Result::inspect); needed because the closure captures `&mut self`."""
    rx = re.compile(r'\.inspect\(\s*\|(\w+)\|\s*\{')
    while True:
        m = rx.search(body)
        if not m:
            return body
        bo = m.end() - 1
        bc = match_close(body, bo)
        tail = re.match(r'\s*\)', body[bc + 1:])
        if not tail:
            raise TemplateError('R13: inspect shape not recognised')
        # receiver expression: back to the start of the statement/expression (previous `{`, `;` or start)
        k = m.start()
        depth = 0
        while k > 0:
            c = body[k - 1]
            if c in ')]':
                depth += 1
            elif c in '([':
                if depth == 0:
                    break
                depth -= 1
            elif c in '{;' and depth == 0:
                break
            k -= 1
        recv = body[k:m.start()].strip()
        new = '{ let r__ = %s; match r__ { Ok(ref %s) => %s, Err(_) => {} } r__ }' % (recv, m.group(1), body[bo:bc + 1])
        body = body[:k] + ' ' + new + body[bc + 1 + tail.end():]
        fired.append('R13')


def rule_R10(text, fired):
    t = text
    # expansions of vec![] forms
    t2 = t.replace('::alloc::vec::Vec::new()', 'Vec::new()')
    t2 = t2.replace('crate::alloc::vec::Vec', 'Vec')
    t2 = re.sub(r'\bmem::size_of::<', 'core::mem::size_of::<', t2)
    t2 = t2.replace('core::core::mem::', 'core::mem::')
    t2 = t2.replace('::parity_scale_codec::alloc::vec::Vec', 'Vec')
    t2 = t2.replace('::parity_scale_codec::', '')
    if t2 != t:
        fired.append('R10')
    return t2


def rule_R11(text, fired):
    """`return (move || BLOCK)();` -> `return BLOCK;` (derive IIFE)."""
    rx = re.compile(r'return\s*\(\s*move\s*\|\|\s*\{')
    while True:
        m = rx.search(text)
        if not m:
            return text
        bopen = m.end() - 1
        bclose = match_close(text, bopen)
        tail = re.match(r'\s*\)\s*\(\s*\)\s*;', text[bclose + 1:])
        if not tail:
            raise TemplateError('R11: IIFE shape not recognised')
        text = text[:m.start()] + 'return ' + text[bopen:bclose + 1] + ';' + text[bclose + 1 + tail.end():]
        fired.append('R11')


def rule_R2(text, fired):
    """closure parameter `_` -> fresh name (Verus rejects `_` closure params)."""
    n = [0]

    def rep(m):
        n[0] += 1
        return '|_v%d|' % n[0]
    t = re.sub(r'\|_\|', rep, text)
    if n[0]:
        fired.append('R2')
    return t


def strip_docs(text):
    return re.sub(r'^\s*///.*$\n?', '', text, flags=re.M)


def strip_attrs(text):
    # statement/field level attributes such as #[inline], #[allow(..)], #[doc(hidden)]
    out = []
    i = 0
    rx = re.compile(r'#\s*\[')
    while True:
        m = rx.search(text, i)
        if not m:
            out.append(text[i:])
            break
        out.append(text[i:m.start()])
        close = match_close(text, m.end() - 1)
        i = close + 1
    return ''.join(out)


# ------------------------------------------------------------------------------------------------

class Gen:
    def __init__(self, src, config):
        self.src = src
        self.sources = {'': src}
        self.config = config
        self.out = []           # output lines
        self.meta = {'fns': [], 'modules': {}, 'assumed': [], 'lemmas': []}
        self.cur_mod_stack = []
        self.degrade = set()
        self.tag = None

    def lineno(self):
        return len(self.out) + 1

    def emit(self, text):
        for l in text.split('\n'):
            self.out.append(l)

    # -- directive handlers ----------------------------------------------------------------
    def do_fn(self, head, lines):
        m = re.match(r'\s*(\S+)\s*::\s*(.*)$', head)
        if not m:
            raise TemplateError('bad //@fn: ' + head)
        oid, path = m.group(1), m.group(2)
        parts = [p.strip() for p in path.split('|')]
        if len(parts) != 3:
            raise TemplateError('bad path in //@fn: ' + head)
        mod, header, name = parts
        header = None if header == '-' else header
        src = self.src
        if mod.startswith('@'):
            sname, _, mod = mod[1:].partition(' ')
            mod = mod.strip()
            if sname not in self.sources:
                raise TemplateError('unknown source @%s' % sname)
            src = self.sources[sname]
        it = src.find_fn(mod, header, name)
        self._emit_fn(oid, it, lines, anchor=path)

    def do_slice(self, head, lines):
        m = re.match(r'\s*(\S+)\s*::\s*(.*?)\s+from\s+`([^`]*)`\s+to\s+`([^`]*)`\s*$', head)
        if not m:
            raise TemplateError('bad //@slice: ' + head)
        oid, path, a_from, a_to = m.groups()
        mod, header, name = [p.strip() for p in path.split('|')]
        header = None if header == '-' else header
        it = self.src.find_fn(mod, header, name)
        sig, body = split_fn(strip_docs(it.text))
        if oid in self.degrade:
            self._emit_fn(oid, it, lines, anchor=path + ' [%s .. %s]' % (a_from, a_to), slice_text='')
            return
        ctx = ''
        if '^' in a_from:
            ctx, a_from = a_from.split('^', 1)
        start_pos = 0
        if ctx.strip():
            mc = anchor_regex(ctx.strip()).search(body)
            if not mc:
                raise LostAnchor('slice context `%s` not found in %s' % (ctx, path))
            start_pos = mc.end()
        mf = anchor_regex(a_from.strip()).search(body, start_pos)
        if not mf:
            raise LostAnchor('slice start `%s` not found in %s' % (a_from, path))
        mt = anchor_regex(a_to).search(body, mf.start())
        if not mt:
            raise LostAnchor('slice end `%s` not found in %s' % (a_to, path))
        sl = body[mf.start():mt.end()]
        # the first //@+ block must provide the synthesized signature (`fn name(params) -> ret`)
        self._emit_fn(oid, it, lines, anchor=path + ' [%s .. %s]' % (a_from, a_to), slice_text=sl)

    def _emit_fn(self, oid, it, lines, anchor, slice_text=None):
        fired = []
        text = strip_docs(it.text)
        sig, body = split_fn(text)
        sig = strip_attrs(sig).strip()
        contract = []
        inserts = []   # (pos, anchor, [text])
        subs = []
        flags = set()
        retname = None
        synth_sig = []
        synth_tail = []
        cur = contract
        for l in lines:
            if l.startswith('//@+'):
                cur.append(l[4:].rstrip() if not l[4:].startswith(' ') else l[5:].rstrip())
                continue
            d = l[3:].strip()
            if d.startswith('ret '):
                retname = d.split()[1]
            elif d.startswith('at '):
                mm = re.match(r'at\s+(after|before)\s+`([^`]*)`', d)
                if d.strip() == 'at start':
                    ins = ('start', None, [])
                elif d.strip() == 'at end':
                    ins = ('end', None, [])
                elif not mm:
                    raise TemplateError('bad at: ' + l)
                else:
                    ins = (mm.group(1), mm.group(2), [])
                inserts.append(ins)
                cur = ins[2]
            elif d.startswith('subre ') or d.startswith('sub '):
                t = _ticks(d)
                toks = d.split()
                opt = toks[-1] == '?'
                tag = toks[-2] if opt else toks[-1]
                subs.append(('re' if d.startswith('subre ') else 'lit', t[0], t[1], tag, opt))
            elif d == 'tail':
                cur = synth_tail
            elif d.startswith('sig'):
                cur = synth_sig
            elif d in ('external_body', 'decl', 'bodyless-ok', 'noR1', 'inline-inspect'):
                flags.add(d)
            elif d.startswith('default-for '):
                dm, dh = [x.strip() for x in d[len('default-for '):].split('|')]
                cont = self.src.find_container(dm, dh)
                if any(c.kind == 'fn' and c.name == it.name for c in cont.children):
                    raise LostAnchor('%s: `%s` now overrides `%s`; the template instantiates the trait default' % (oid, dh, it.name))
                fired.append('R5-default')
            elif d == 'spec':
                cur = contract
            elif d == '':
                pass
            else:
                raise TemplateError('unknown directive: ' + l)
        deg = oid in self.degrade
        if deg:
            flags.add('external_body')
            flags.discard('decl')
            subs = [(k_, a_, b_, t_, True) for (k_, a_, b_, t_, o_) in subs]
        if slice_text is not None:
            if not synth_sig:
                raise TemplateError('slice %s needs a //@ sig block' % oid)
            sig = '\n'.join(synth_sig)
            body = '{\n' + slice_text + '\n' + '\n'.join(synth_tail) + '\n}'
            fired.append('R9')
        if body is None and 'bodyless-ok' not in flags and 'decl' not in flags:
            raise LostAnchor('%s has no body' % anchor)
        # R12 name the return value
        if retname:
            mm = re.search(r'->\s*', sig)
            if not mm:
                raise TemplateError('%s: ret given but no return type' % oid)
            # find the top-level `->` that belongs to the fn (last one outside brackets, before `where`)
            pos = self._fn_arrow(sig)
            rest = sig[pos + 2:].strip()
            wh = self._top_level_where(rest)
            rtype, where = (rest, '') if wh is None else (rest[:wh].strip(), ' ' + rest[wh:])
            sig = sig[:pos] + '-> (%s: %s)' % (retname, rtype) + where
            fired.append('R12')
        sig = sig.replace('::parity_scale_codec::alloc::vec::Vec', 'Vec').replace('::parity_scale_codec::', '')
        # R2: wildcard parameter patterns get a fresh name (Verus accepts only identifier patterns)
        cnt = [0]

        def _wild(m):
            cnt[0] += 1
            return '%s_p%d:' % (m.group(1), cnt[0])
        sig2 = re.sub(r'([(,]\s*)_\s*:', _wild, sig)
        if sig2 != sig:
            sig = sig2
            fired.append('R2')
        if body is not None and 'decl' not in flags and 'external_body' not in flags:
            body = strip_attrs(body)
            body = rule_R4(body, fired)
            req, body = rule_R3(sig, body, fired)
            if req:
                contract = ['requires ' + ', '.join(req) + ','] + self._merge_requires(contract)
            if 'noR1' not in flags:
                body = rule_R1(body, fired)
            body = rule_R11(body, fired)
            if 'inline-inspect' in flags:
                body = rule_R13_inspect(body, fired)
            body = rule_R2(body, fired)
            body = rule_R10(body, fired)
            for kind, a, b, tag, opt in subs:
                rx = anchor_regex(a) if kind == 'lit' else re.compile(a)
                if not rx.search(body) and not rx.search(sig):
                    if opt:
                        continue
                    raise LostAnchor('%s: sub anchor `%s` not found' % (oid, a))
                if kind == 'lit':
                    body = rx.sub(lambda _m: b, body)
                    sig = rx.sub(lambda _m: b, sig)
                else:
                    body = rx.sub(b, body)
                    sig = rx.sub(b, sig)
                fired.append(tag)
            for pos, a, txt in inserts:
                if pos == 'start':
                    k = body.index('{') + 1
                    body = body[:k] + '\n' + '\n'.join(txt) + '\n' + body[k:]
                    fired.append('R8')
                    continue
                if pos == 'end':
                    k = body.rindex('}')
                    body = body[:k] + '\n' + '\n'.join(txt) + '\n' + body[k:]
                    fired.append('R8')
                    continue
                rx = anchor_regex(a)
                ms = list(rx.finditer(body))
                if len(ms) != 1:
                    raise LostAnchor('%s: anchor `%s` matches %d times' % (oid, a, len(ms)))
                mm = ms[0]
                k = mm.end() if pos == 'after' else mm.start()
                body = body[:k] + '\n' + '\n'.join(txt) + '\n' + body[k:]
                fired.append('R8')
        else:
            for kind, a, b, tag, opt in subs:
                if kind == 'lit':
                    if a not in sig:
                        if opt:
                            continue
                        raise LostAnchor('%s: sub anchor `%s` not found in signature' % (oid, a))
                    sig = sig.replace(a, b)
                else:
                    sig = re.sub(a, b, sig)
                fired.append(tag)
        start = self.lineno()
        if 'external_body' in flags:
            self.emit('#[verifier::external_body]')
            self.meta['assumed'].append({'id': oid, 'anchor': anchor, 'why': 'external_body (contract assumed)'})
        self.emit(sig)
        if contract:
            self.emit('\n'.join('    ' + c for c in contract))
        if 'decl' in flags or body is None:
            self.emit(';')
        elif 'external_body' in flags:
            self.emit('{ unimplemented!() }')
        else:
            self.emit(body)
        end = self.lineno() - 1
        self.meta['fns'].append({
            'id': oid, 'anchor': anchor, 'src_mod': it.mod, 'sha': it.sha(), 'rules': fired,
            'closures': count_closures(strip_docs(it.text) if slice_text is None else slice_text),
            'lines': [start, end], 'module': '::'.join(self.cur_mod_stack),
            'mode': 'assumed' if 'external_body' in flags else ('decl' if ('decl' in flags or body is None) else 'verified'),
        })

    @staticmethod
    def _merge_requires(contract):
        # if the template contract itself starts with `requires`, turn it into a continuation
        out = []
        for c in contract:
            s = c.strip()
            if s.startswith('requires'):
                out.append(s[len('requires'):].strip())
            else:
                out.append(c)
        return out

    @staticmethod
    def _fn_arrow(sig):
        depth = 0
        last = -1
        i = 0
        # the fn's own arrow is the first `->` at paren depth 0 after the parameter list
        popen = sig.index('(')
        # generics may contain parens (Fn(..) -> ..): find the parameter list = first '(' at angle depth 0
        ang = 0
        i = 0
        while i < len(sig):
            c = sig[i]
            if c == '<':
                ang += 1
            elif c == '>' and sig[i - 1] != '-':
                ang -= 1
            elif c == '(' and ang == 0:
                popen = i
                break
            i += 1
        pclose = match_close(sig, popen)
        k = sig.find('->', pclose)
        if k < 0:
            raise TemplateError('no return arrow in: ' + sig)
        return k

    @staticmethod
    def _top_level_where(rest):
        depth = 0
        for m in re.finditer(r'[<>()\[\]]|\bwhere\b', rest):
            t = m.group(0)
            if t in '<([':
                depth += 1
            elif t == '>':
                if rest[m.start() - 1] != '-':
                    depth -= 1
            elif t in ')]':
                depth -= 1
            elif t == 'where' and depth == 0:
                return m.start()
        return None

    def do_item(self, head, widen=False):
        mod, kind, name = [p.strip() for p in head.split('|')]
        it = self.src.find_item(mod, kind, name)
        start = self.lineno()
        text = strip_attrs(strip_docs(it.text))
        if widen:
            # R10: visibility only
            text = re.sub(r'^(\s*)pub\(crate\)\s+', r'\1', text, count=1)
            text = re.sub(r'^(\s*)(struct|enum|trait|const)\b', r'\1pub \2', text, count=1)
            text = re.sub(r'^(\s*pub const \w+\s*:\s*)&str\b', r"\1&'static str", text)
            text = re.sub(r'^(\s*)(?!pub\b)([a-z_][A-Za-z0-9_]*\s*:)', r'\1pub \2', text, flags=re.M)
        self.emit(text)
        self.meta['fns'].append({'id': 'item.%s.%s' % (mod, name), 'anchor': head, 'src_mod': mod, 'sha': it.sha(),
                                 'rules': [], 'lines': [start, self.lineno() - 1], 'module': '::'.join(self.cur_mod_stack), 'mode': 'item'})

    # -- driver ----------------------------------------------------------------------------
    def process(self, template_text, name):
        lines = template_text.split('\n')
        i = 0
        n = len(lines)
        while i < n:
            l = lines[i]
            s = l.strip()
            if s.startswith('//@fn ') or s.startswith('//@slice '):
                j = i + 1
                dl = []
                while j < n and lines[j].strip().startswith('//@') and not re.match(r'//@(fn|slice|item|const|module|lemma|if|endif)\b', lines[j].strip()):
                    dl.append(lines[j].strip())
                    j += 1
                mark_ = len(self.out)
                try:
                    if s.startswith('//@fn '):
                        self.do_fn(s[6:], dl)
                    else:
                        self.do_slice(s[9:], dl)
                except LostAnchor as e:
                    # a function whose module does not serve the property under check is not this check's obligation: keep
                    # its contract (callers in other modules are checked against it, as always), drop its body, go on.
                    # The property that owns the module still gets the lost anchor (undecided).
                    oid_ = s.split()[1]
                    props_ = self.meta['modules'].get('::'.join(self.cur_mod_stack), {}).get('props')
                    tag_ = getattr(self, 'tag', None)
                    if tag_ and props_ is not None and tag_ not in props_ and oid_ not in self.degrade:
                        self.degrade.add(oid_)
                        del self.out[mark_:]
                        self.meta['fns'] = [f for f in self.meta['fns'] if f['id'] != oid_]
                        try:
                            if s.startswith('//@fn '):
                                self.do_fn(s[6:], dl)
                            else:
                                self.do_slice(s[9:], dl)
                            self.meta.setdefault('degraded', []).append({'id': oid_, 'why': str(e)[:300]})
                        except LostAnchor as e2:
                            raise LostAnchor('%s:%d: %s' % (name, i + 1, e2))
                    else:
                        raise LostAnchor('%s:%d: %s' % (name, i + 1, e))
                i = j
                continue
            if s.startswith('//@item-pub '):
                try:
                    self.do_item(s[12:], widen=True)
                except LostAnchor as e:
                    raise LostAnchor('%s:%d: %s' % (name, i + 1, e))
                i += 1
                continue
            if s.startswith('//@item '):
                try:
                    self.do_item(s[8:])
                except LostAnchor as e:
                    raise LostAnchor('%s:%d: %s' % (name, i + 1, e))
                i += 1
                continue
            if s.startswith('//@const '):
                try:
                    cm, ch, cn = [x.strip() for x in s[9:].split('|')]
                    cont = self.src.find_container(cm, ch)
                    hits = [c for c in cont.children if c.kind == 'const' and c.name == cn]
                    if len(hits) != 1:
                        raise LostAnchor('%d consts named %s in %s' % (len(hits), cn, ch))
                    st = self.lineno()
                    self.emit(strip_attrs(strip_docs(hits[0].text)))
                    self.meta['fns'].append({'id': 'const.%s.%s' % (ch, cn), 'anchor': s[9:], 'src_mod': cm, 'sha': hits[0].sha(), 'rules': [],
                                             'lines': [st, self.lineno() - 1], 'module': '::'.join(self.cur_mod_stack), 'mode': 'item'})
                except LostAnchor as e:
                    raise LostAnchor('%s:%d: %s' % (name, i + 1, e))
                i += 1
                continue
            if s.startswith('//@module '):
                m = re.match(r'//@module\s+(\S+)\s+props=(\S+)(?:\s+(.*))?', s)
                modpath = '::'.join(self.cur_mod_stack)
                self.meta['modules'][modpath] = {'props': m.group(2).split(','), 'note': m.group(3) or '', 'template': name}
                i += 1
                continue
            if s.startswith('//@lemma '):
                # //@lemma <id> props=C02,C14 : next item is a proof fn serving these properties
                m = re.match(r'//@lemma\s+(\S+)\s+props=(\S+)', s)
                self.meta['lemmas'].append({'id': m.group(1), 'props': m.group(2).split(','), 'line': self.lineno(), 'module': '::'.join(self.cur_mod_stack)})
                i += 1
                continue
            if s.startswith('//@if '):
                cond = s[6:].strip()
                want = cond in self.config.get('flags', [])
                if cond.startswith('!'):
                    want = cond[1:] not in self.config.get('flags', [])
                if not want:
                    depth = 1
                    i += 1
                    while i < n and depth:
                        t = lines[i].strip()
                        if t.startswith('//@if '):
                            depth += 1
                        elif t.startswith('//@endif'):
                            depth -= 1
                        i += 1
                    continue
                i += 1
                continue
            if s.startswith('//@endif'):
                i += 1
                continue
            # track `mod x {` / closing for module attribution (templates keep one `mod` per line and
            # close it with a line `} // mod x`)
            m = re.match(r'\s*(?:pub\s+)?mod\s+(\w+)\s*\{', l)
            if m:
                parent = '::'.join(self.cur_mod_stack)
                self.cur_mod_stack.append(m.group(1))
                self.meta.setdefault('module_lines', {})['::'.join(self.cur_mod_stack)] = [self.lineno(), None]
                if m.group(1) == 'lem' and parent in self.meta['modules']:
                    # lemma sub-modules belong to the obligations of their parent module
                    self.meta['modules']['::'.join(self.cur_mod_stack)] = dict(self.meta['modules'][parent], note='lemmas of ' + parent)
            elif re.match(r'\s*\}\s*//\s*mod\s+(\w+)', l):
                nm = re.match(r'\s*\}\s*//\s*mod\s+(\w+)', l).group(1)
                if not self.cur_mod_stack or self.cur_mod_stack[-1] != nm:
                    raise TemplateError('%s:%d: unbalanced mod close %s' % (name, i + 1, nm))
                self.meta.setdefault('module_lines', {})['::'.join(self.cur_mod_stack)][1] = self.lineno()
                self.cur_mod_stack.pop()
            self.out.append(l)
            i += 1


def count_closures(text):
    """number of closure expressions in a function's source text (`|args| body`, `move |args| body`, `|| body`)"""
    t = re.sub(r'//[^\n]*', '', text)
    t = re.sub(r'"(?:[^"\\]|\\.)*"', '""', t)
    n = 0
    for m in re.finditer(r'(?:(?<=[(,=\s])|^)(?:move\s+)?\|((?:[^|\n]{0,120}))\|', t):
        inner = m.group(1)
        before = t[max(0, m.start() - 2):m.start()]
        # skip the binary/boolean operators `a | b`, `a || b` : a closure's parameter list follows `(`, `,`, `=` or whitespace
        # after one of those, and never has an operand directly in front of it
        if re.search(r'[\w)\]]\s*$', t[max(0, m.start() - 3):m.start()]) and not re.search(r'(?:[(,=]|\bmove)\s*$', t[max(0, m.start() - 8):m.start()]):
            continue
        n += 1
    return n


def generate(expanded_path, templates, out_rs, out_meta, flags=(), extra_sources=None, extra=None, tag=None, degrade=None):
    src = Source(open(expanded_path).read())
    g = Gen(src, {'flags': list(flags)})
    g.tag = tag
    g.degrade = set(degrade or [])
    for k, pth in (extra_sources or {}).items():
        g.sources[k] = Source(open(pth).read())
    g.extra = extra or {}
    for t in templates:
        if t.endswith('.py'):
            import importlib.util
            sp = importlib.util.spec_from_file_location('tmpl_' + os.path.basename(t)[:-3], t)
            m = importlib.util.module_from_spec(sp)
            sp.loader.exec_module(m)
            import inspect
            if len(inspect.signature(m.template).parameters) >= 3:
                g.process(m.template(src, list(flags), g), os.path.basename(t))
            else:
                g.process(m.template(src, list(flags)), os.path.basename(t))
        else:
            g.process(open(t).read(), os.path.basename(t))
    text = '\n'.join(g.out) + '\n'
    with open(out_rs, 'w') as f:
        f.write(text)
    g.meta['sha_generated'] = hashlib.sha256(text.encode()).hexdigest()
    g.meta['expanded'] = expanded_path
    g.meta['templates'] = [os.path.basename(t) for t in templates]
    # scan for assumptions in the generated text
    scan_rx = re.compile(r'(assume_specification|external_body|\badmit\s*\(|\bassume\s*\(|external_fn_specification|external_type_specification|#\[verifier::external\])')
    assumed_lines = []
    for no, l in enumerate(g.out, 1):
        if scan_rx.search(l) and not l.strip().startswith('//'):
            nxt = ''
            for k in range(no, min(no + 4, len(g.out))):
                if g.out[k].strip() and not g.out[k].strip().startswith('#['):
                    nxt = g.out[k].strip()
                    break
            if 'external_body' in l and re.match(r'(pub )?fn size_hint', nxt):
                nxt = 'fn size_hint (R7: performance hint, not under contract)'
            assumed_lines.append([no, (l.strip() + ' ' + nxt)[:200]])
    g.meta['assumption_scan'] = assumed_lines
    # impl-item coverage: every impl/trait from which at least one fn is under contract is listed with all its fn items;
    # a method that is not in the committed baseline (verus/impl_items.baseline.json) is new code inside an impl the
    # checks claim to cover, with no contract on it => lost anchor (undecided), never silently ignored
    items = {}
    for f in g.meta['fns']:
        parts = [x.strip() for x in f['anchor'].split('|')]
        if len(parts) != 3 or parts[0].startswith('@') or parts[1] in ('-', ''):
            continue
        key = parts[0] + ' | ' + norm(parts[1])
        if key in items:
            continue
        try:
            c = src.find_container(parts[0], parts[1])
        except LostAnchor:
            continue
        items[key] = sorted(set(ch.name for ch in c.children if ch.kind == 'fn'))
    g.meta['impl_items'] = items
    cl_p = os.path.join(os.path.dirname(os.path.dirname(os.path.abspath(__file__))), 'verus', 'fn_closures.baseline.json')
    if os.environ.get('PSC_WRITE_IMPL_BASELINE'):
        oldc = json.load(open(cl_p)) if os.path.exists(cl_p) else {}
        for f in g.meta['fns']:
            if not f['anchor'].startswith('@') and 'closures' in f:
                oldc[f['id']] = max(oldc.get(f['id'], 0), f['closures'])
        with open(cl_p, 'w') as fh:
            json.dump(oldc, fh, indent=1, sort_keys=True)
    if os.path.exists(cl_p):
        basec = json.load(open(cl_p))
        g.meta['new_closures'] = sorted(f['id'] for f in g.meta['fns'] if f.get('closures', 0) > basec.get(f['id'], f.get('closures', 0)))
    base_p = os.path.join(os.path.dirname(os.path.dirname(os.path.abspath(__file__))), 'verus', 'impl_items.baseline.json')
    if os.environ.get('PSC_WRITE_IMPL_BASELINE'):
        old = json.load(open(base_p)) if os.path.exists(base_p) else {}
        for k, v in items.items():
            old[k] = sorted(set(old.get(k, [])) | set(v))
        with open(base_p, 'w') as f:
            json.dump(old, f, indent=1, sort_keys=True)
    elif os.path.exists(base_p):
        base = json.load(open(base_p))
        new_items = ['%s: %s' % (k, ', '.join(sorted(set(v) - set(base[k])))) for k, v in sorted(items.items()) if k in base and set(v) - set(base[k])]
        if new_items:
            raise LostAnchor('method(s) not present when the contracts were written, inside impls under contract: ' + '; '.join(new_items))
    with open(out_meta, 'w') as f:
        json.dump(g.meta, f, indent=1)
    return g.meta


if __name__ == '__main__':
    import argparse
    ap = argparse.ArgumentParser()
    ap.add_argument('expanded')
    ap.add_argument('out_rs')
    ap.add_argument('out_meta')
    ap.add_argument('templates', nargs='+')
    ap.add_argument('--flag', action='append', default=[])
    ap.add_argument('--family', type=int, default=None, help='seed: build the derive family and include it')
    a = ap.parse_args()
    try:
        es, ex = None, None
        if a.family is not None:
            import family
            import check
            fp, defs, _ = family.build(a.family, 'quick', check.repo_hash())
            es, ex = {'family': fp}, {'family_defs': defs}
        generate(a.expanded, a.templates, a.out_rs, a.out_meta, a.flag, es, ex)
    except LostAnchor as e:
        print('LOST-ANCHOR: %s' % e)
        sys.exit(2)
