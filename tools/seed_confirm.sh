#!/bin/bash
# usage: tools/seed_confirm.sh <worktree> : confirms (1) demo fails with the change, (2) passes without, (3) suite passes with the change
# (no `git stash`: the stash is shared between worktrees)
wt="$1"; cd "$wt" || exit 1
feat="${2:-}"
git diff -- src derive > /tmp/$(basename $wt).confirm.diff
cp _seed/demo.rs tests/seed_demo.rs
echo "--- demo WITH change"; cargo test --offline $feat --test seed_demo 2>&1 | grep -E "^test result|^error" | head -3
git apply -R /tmp/$(basename $wt).confirm.diff
echo "--- demo WITHOUT change"; cargo test --offline $feat --test seed_demo 2>&1 | grep -E "^test result|^error" | head -3
git apply /tmp/$(basename $wt).confirm.diff
rm -f tests/seed_demo.rs
echo "--- suite WITH change (failing tests listed; 3 UI tests fail on the unmodified tree too)"
cargo test --offline --workspace --no-fail-fast 2>&1 | grep -E "^test .* FAILED|^test result: FAILED" | sort | uniq -c | head -12
git status --short | head -5
