#!/bin/bash
# usage: tools/seed_confirm.sh <worktree> : confirms (1) demo fails with the change, (2) passes without, (3) suite passes with the change
wt="$1"; cd "$wt" || exit 1
cp _seed/demo.rs tests/seed_demo.rs
echo "--- demo WITH change"; cargo test --offline --test seed_demo 2>&1 | grep -E "^test result|error(\[|:)" | head -3
git stash push -q -- src derive 2>/dev/null
echo "--- demo WITHOUT change"; cargo test --offline --test seed_demo 2>&1 | grep -E "^test result|error(\[|:)" | head -3
git stash pop -q
rm -f tests/seed_demo.rs
echo "--- suite WITH change"; cargo test --offline --workspace --no-fail-fast 2>&1 | grep -E "^test result: FAILED|^test .* FAILED|^test result: ok" | sort | uniq -c | head -12
git status --short | head -5
