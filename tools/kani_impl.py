"""Kani runner: harness files under /verif/kani are compiled *inside* a scratch copy of /repo as child modules
(`#[cfg(kani)] #[path = ...] mod`), so they reach private items; nothing is committed to /repo."""
import json
import os
import re
import shutil
import subprocess
import tempfile
import time

from check import ROOT, REPO, ENV, Undecided, log

FEATURES = 'derive,max-encoded-len'


def load_registry():
    return json.load(open(os.path.join(ROOT, 'kani', 'registry.json')))['harnesses']


def make_scratch(harnesses, cfg='kani'):
    d = tempfile.mkdtemp(prefix='psc_kani_')
    repo = os.path.join(d, 'repo')
    shutil.copytree(REPO, repo, ignore=shutil.ignore_patterns('target', '.git', 'fuzzer', 'benches'))
    # workspace without the fuzzer member
    ct = open(os.path.join(repo, 'Cargo.toml')).read()
    ct = ct.replace('members = ["derive", "fuzzer"]', 'members = ["derive"]')
    ct = re.sub(r'\[\[bench\]\]\nname = "benches"\nharness = false\n', '', ct)
    open(os.path.join(repo, 'Cargo.toml'), 'w').write(ct)
    hosts = {}
    for h in harnesses:
        hosts.setdefault(h['host'], set()).add(h['file'])
    for host, files in hosts.items():
        p = os.path.join(repo, host)
        with open(p, 'a') as f:
            for fl in sorted(files):
                modname = '__verif_' + re.sub(r'\W', '_', fl[:-3])
                f.write('\n#[cfg(any(kani, psc_verif_replay))]\n#[path = "%s"]\nmod %s;\n' % (os.path.join(ROOT, 'kani', fl), modname))
    return d, repo


def full_name(h):
    modname = '__verif_' + re.sub(r'\W', '_', h['file'][:-3])
    return '%s::%s::%s' % (h['modpath'], modname, h['name'])


def _cbmc_children(scratch):
    out = []
    for pid in os.listdir('/proc'):
        if not pid.isdigit():
            continue
        try:
            cl = open('/proc/%s/cmdline' % pid, 'rb').read().decode(errors='replace')
        except OSError:
            continue
        if cl.startswith('cbmc') and scratch in cl:
            out.append(int(pid))
    return out


def _proc_stats(pid):
    try:
        st = open('/proc/%d/stat' % pid).read().split()
        rss = int(st[23]) * os.sysconf('SC_PAGE_SIZE')
        start = int(st[21]) / os.sysconf('SC_CLK_TCK')
        up = float(open('/proc/uptime').read().split()[0])
        return rss, up - start
    except (OSError, IndexError, ValueError):
        return 0, 0


def run_harnesses(harnesses, jobs=8, timeout=3000, playback=False, mem_limit_gb=10, per_harness_s=900, extra_args=None):
    d, repo = make_scratch(harnesses)
    try:
        feats = (harnesses[0].get('features') if harnesses else None) or FEATURES
        cmd = ['cargo', 'kani', '-p', 'parity-scale-codec', '--features', feats, '--exact', '--output-format', 'terse']
        if playback:
            cmd += ['-Z', 'concrete-playback', '--concrete-playback=print']
        else:
            cmd += ['-j', str(jobs)]
        for h in harnesses:
            cmd += ['--harness', full_name(h)]
        if extra_args is None and harnesses and all(h.get('kani_args') == harnesses[0].get('kani_args') for h in harnesses):
            extra_args = harnesses[0].get('kani_args')
        cmd += list(extra_args or [])
        env = dict(ENV, CARGO_TARGET_DIR=os.path.join(d, 'target'))
        t0 = time.time()
        killed = []
        p = subprocess.Popen(cmd, cwd=repo, env=env, stdout=subprocess.PIPE, stderr=subprocess.STDOUT, text=True)
        import threading
        buf = []
        th = threading.Thread(target=lambda: buf.append(p.stdout.read()))
        th.start()
        # watchdog: a CBMC process of this run that exceeds the per-harness memory / time budget is killed
        # (the harness is then reported as RESOURCE = undecided, never as a violation)
        while p.poll() is None:
            time.sleep(3)
            for pid in _cbmc_children(d):
                rss, age = _proc_stats(pid)
                if rss > mem_limit_gb * (1 << 30) or age > per_harness_s:
                    try:
                        os.kill(pid, 9)
                        killed.append((pid, rss >> 20, int(age)))
                    except OSError:
                        pass
            if time.time() - t0 > timeout:
                p.kill()
        th.join()
        out = (buf[0] if buf else '') + ''.join('\n[watchdog] killed cbmc pid %d (rss %d MiB, age %d s): CBMC failed (resource budget)' % k for k in killed)
        rc = p.returncode
        dt = time.time() - t0
        return {'rc': rc, 'out': out, 'wall_s': dt, 'cmd': ' '.join(cmd)}
    finally:
        shutil.rmtree(d, ignore_errors=True)


def parse(out, harnesses):
    """Per-harness status.  Under -j the per-harness blocks interleave, so the authoritative source is the final
    summary (`Verification failed for - <name>` + `Complete - N successfully verified harnesses, M failures, T total`);
    blocks are used for details when they can be attributed."""
    out = re.sub(r'^Thread \d+: ', '', out, flags=re.M)
    res = {}
    failed = set(m.group(1).strip() for m in re.finditer(r'^Verification failed for - (\S+)', out, flags=re.M))
    mt = re.search(r'Complete - (\d+) successfully verified harnesses, (\d+) failures, (\d+) total', out)
    blocks = {}
    parts = re.split(r'^Checking harness ', out, flags=re.M)
    for blk in parts[1:]:
        name = blk.split('...', 1)[0].strip()
        blocks[name] = blk
    for h in harnesses:
        fn = full_name(h)
        blk = blocks.get(fn, '')
        if mt is None:
            status = 'NOT-RUN'
        elif fn in failed:
            status = 'FAILURE'
        else:
            status = 'SUCCESS'
        m = re.search(r'Verification Time: ([0-9.]+)s', blk)
        res[fn] = {'status': status, 'output': blk if blk else out[-3000:], 'time_s': float(m.group(1)) if m else None}
    return res


def classify_failure(blk):
    """A FAILED verdict is a violation only if a property check failed; resource problems and unwinding are undecided."""
    if re.search(r'CBMC failed|out of memory|timed out|CBMC timed out|Killed', blk):
        return 'RESOURCE'
    fails = re.findall(r'Failed Checks: (.*)', blk)
    if not fails:
        return 'UNKNOWN'
    if all('unwinding assertion' in f for f in fails):
        return 'UNWIND'
    return 'FAILURE'


def extract_playback(blk):
    """Kani prints a unit test with `let concrete_vals: Vec<Vec<u8>> = vec![ // comment\n vec![..], ...];`"""
    m = re.search(r'let concrete_vals: Vec<Vec<u8>> = vec!\[(.*?)\];', blk, flags=re.S)
    if not m:
        return None
    vals = []
    for vm in re.finditer(r'vec!\[([0-9,\s]*)\]', m.group(1)):
        vals.append([int(x) for x in vm.group(1).replace('\n', ' ').split(',') if x.strip()])
    return vals


def native_replay(h, vals):
    """Run the harness body natively (repo toolchain) on the recorded values; True if the assertion fails there."""
    d, repo = make_scratch([h])
    try:
        env = dict(ENV, CARGO_TARGET_DIR=os.path.join(d, 'target'), RUSTFLAGS='--cfg psc_verif_replay',
                   PSC_VERIF_REPLAY_VALUES=';'.join(','.join(str(b) for b in v) for v in vals))
        test = 'replay_' + h['name']
        cmd = ['cargo', 'test', '--offline', '--lib', '-p', 'parity-scale-codec', '--features', h.get('features') or FEATURES, test, '--', '--exact',
               '%s::%s::%s' % (h['modpath'], '__verif_' + re.sub(r'\W', '_', h['file'][:-3]), test), '--nocapture']
        p = subprocess.run(cmd, cwd=repo, env=env, stdout=subprocess.PIPE, stderr=subprocess.STDOUT, text=True, timeout=1800)
        out = p.stdout
        failed = bool(re.search(r'test result: FAILED|panicked at', out)) and 'PSC_REPLAY_ASSUMPTION_VIOLATED' not in out
        ran = bool(re.search(r'running 1 test', out))
        return {'ran': ran, 'assertion_failed_natively': failed and ran, 'output': out[-3000:], 'cmd': ' '.join(cmd)}
    finally:
        shutil.rmtree(d, ignore_errors=True)


def run_for_property(prop, tier):
    reg = load_registry()
    sel = [h for h in reg if prop in h['props'] and (tier == 'thorough' or h.get('tier', 'quick') == 'quick')]
    if not sel:
        return None
    # harnesses that need extra Kani/CBMC arguments (e.g. the allocation-leak check) run in their own invocation
    groups = {}
    for h in sel:
        groups.setdefault((tuple(h.get('kani_args') or ()), h.get('features')), []).append(h)
    per = {}
    r = None
    for (args, _feats), hs_ in groups.items():
        r_ = run_harnesses(hs_, jobs=6, extra_args=list(args))
        per.update(parse(r_['out'], hs_))
        if r is None:
            r = r_
        else:
            r = {'rc': r['rc'] or r_['rc'], 'out': r['out'] + '\n' + r_['out'], 'cmd': r['cmd'] + ' ; ' + r_['cmd'], 'wall_s': r.get('wall_s', 0) + r_.get('wall_s', 0)}
    hs = []
    compile_failed = not per and r['rc'] != 0
    for h in sel:
        fn = full_name(h)
        pr = per.get(fn)
        ent = {'name': h['name'], 'complete': h['complete'], 'bound': h['bound'], 'what': h['what'], 'obligation': h.get('obligation'),
               'status': pr['status'] if pr else ('BUILD-FAILED' if compile_failed else 'NOT-RUN'), 'wall_s': pr['time_s'] if pr else None,
               'output': pr['output'] if pr else r['out'][-3000:]}
        hs.append(ent)
    # every harness reported as failed is re-run alone (sequential, concrete playback on) and classified
    failing = [h for h, e in zip(sel, hs) if e['status'] == 'FAILURE']
    for h in failing:
        ent = [e for e in hs if e['name'] == h['name']][0]
        ent['first_output'] = ent.get('output')
        r2 = run_harnesses([h], playback=True, timeout=3000)
        blk = re.sub(r'^Thread \d+: ', '', r2['out'], flags=re.M)
        ent['output'] = blk[-6000:]
        cls = classify_failure(blk)
        if 'VERIFICATION:- SUCCESSFUL' in blk and cls != 'FAILURE':
            ent['status'] = 'SUCCESS'
            continue
        if cls != 'FAILURE':
            # the re-run with concrete playback ran out of budget: the first run's verdict stands when CBMC reported a
            # failed check there (a property failure, not a resource failure); the violation then carries no replayed input
            first = ent.get('first_output') or ''
            if 'Failed Checks:' in first and classify_failure(first) == 'FAILURE':
                ent['status'] = 'FAILURE'
                ent['output'] = first[-6000:]
                ent['witness'] = {'concrete_values': None, 'replayed': False, 'note': 'concrete playback re-run exceeded the resource budget (%s)' % cls}
            else:
                ent['status'] = cls
            continue
        ent['status'] = cls
        vals = extract_playback(blk)
        if vals is not None:
            nr = native_replay(h, vals)
            ent['witness'] = {'concrete_values': vals, 'replayed': nr['assertion_failed_natively'], 'native_replay': nr}
        else:
            ent['witness'] = {'concrete_values': None, 'replayed': False, 'note': 'Kani printed no concrete playback'}
    summary = {'harnesses': len(hs), 'complete': sum(1 for e in hs if e['complete']), 'bounded': sum(1 for e in hs if not e['complete']),
               'wall_s': round(r['wall_s'], 1), 'backend': 'CBMC 6.11 + SAT (via Kani 0.68)'}
    return {'cmd': '(scratch copy of /repo + injected child modules) ' + r['cmd'], 'harnesses': hs, 'summary': summary,
            'trusted': ['kani: harness-local executable copies of the spec (e.g. spec_compact_u32) are part of the harness, checked against the Verus spec by construction only']}
