"""Option / Result / OptionBool / unit / PhantomData / NonZero family / tuple family."""
import re

HEAD = '''
// ===== Option, Result, OptionBool, (), PhantomData, NonZero*, tuples (generated from verus/40_basic.py) =====
pub mod basic_option {
use super::*;
broadcast use auto::psc_auto;
//@module basic_option props=C01,C02,C03,C07,C08,C11,C12,C14
impl<T: Encode> Encode for Option<T> {
    open spec fn spec_enc(&self) -> Seq<u8> { match self { Some(t) => seq![1u8] + t.spec_enc(), None => seq![0u8] } }
    open spec fn enc_ok(&self) -> bool { match self { Some(t) => t.enc_ok(), None => true } }
    #[verifier::external_body]
    fn size_hint(&self) -> usize { 0 }
    //@fn option.encode_to :: codec | impl<T:Encode>Encode for Option<T> | encode_to
    //@ at before `match *self {`
    //@+ proof { broadcast use sl::push_is_concat; }
}
impl<T: Decode> Decode for Option<T> {
    open spec fn accepts(b: Seq<u8>) -> Option<nat> {
        if b.len() == 0 { None }
        else if b[0] == 0 { Some(1nat) }
        else if b[0] == 1 { match T::accepts(b.skip(1)) { Some(n) => Some(n + 1), None => None } }
        else { None }
    }
    open spec fn dec_bytes(v: &Self) -> Seq<u8> { match v { None => seq![0u8], Some(t) => seq![1u8] + T::dec_bytes(t) } }
    open spec fn need_depth(b: Seq<u8>) -> nat { if b.len() > 0 && b[0] == 1 { T::need_depth(b.skip(1)) } else { 0 } }
    open spec fn need_mem(b: Seq<u8>) -> Option<nat> { if b.len() > 0 && b[0] == 1 { T::need_mem(b.skip(1)) } else { None } }
    proof fn law_bound(b: Seq<u8>) { if b.len() > 0 && b[0] == 1 { T::law_bound(b.skip(1)); } }
    //@fn option.decode :: codec | impl<T:Decode>Decode for Option<T> | decode
    //@ at before `match input.read_byte()`
    //@+ proof { assert(forall|s: Seq<u8>| s.len() >= 1 ==> s =~= #[trigger] (seq![s[0]] + s.skip(1))); }
}
} // mod basic_option

pub mod basic_result {
use super::*;
broadcast use auto::psc_auto;
//@module basic_result props=C01,C02,C03,C07,C08,C11,C12,C14
impl<T: Encode, E: Encode> Encode for Result<T, E> {
    open spec fn spec_enc(&self) -> Seq<u8> { match self { Ok(t) => seq![0u8] + t.spec_enc(), Err(e) => seq![1u8] + e.spec_enc() } }
    open spec fn enc_ok(&self) -> bool { match self { Ok(t) => t.enc_ok(), Err(e) => e.enc_ok() } }
    #[verifier::external_body]
    fn size_hint(&self) -> usize { 0 }
    //@fn result.encode_to :: codec | impl<T:Encode,E:Encode>Encode for Result<T,E> | encode_to
    //@ at before `match *self {`
    //@+ proof { broadcast use sl::push_is_concat; }
}
impl<T: Decode, E: Decode> Decode for Result<T, E> {
    open spec fn accepts(b: Seq<u8>) -> Option<nat> {
        if b.len() == 0 { None }
        else if b[0] == 0 { match T::accepts(b.skip(1)) { Some(n) => Some(n + 1), None => None } }
        else if b[0] == 1 { match E::accepts(b.skip(1)) { Some(n) => Some(n + 1), None => None } }
        else { None }
    }
    open spec fn dec_bytes(v: &Self) -> Seq<u8> { match v { Ok(t) => seq![0u8] + T::dec_bytes(t), Err(e) => seq![1u8] + E::dec_bytes(e) } }
    open spec fn need_depth(b: Seq<u8>) -> nat {
        if b.len() > 0 && b[0] == 0 { T::need_depth(b.skip(1)) } else if b.len() > 0 && b[0] == 1 { E::need_depth(b.skip(1)) } else { 0 }
    }
    open spec fn need_mem(b: Seq<u8>) -> Option<nat> {
        if b.len() > 0 && b[0] == 0 { T::need_mem(b.skip(1)) } else if b.len() > 0 && b[0] == 1 { E::need_mem(b.skip(1)) } else { None }
    }
    proof fn law_bound(b: Seq<u8>) { if b.len() > 0 && b[0] == 0 { T::law_bound(b.skip(1)); } if b.len() > 0 && b[0] == 1 { E::law_bound(b.skip(1)); } }
    //@fn result.decode :: codec | impl<T:Decode,E:Decode>Decode for Result<T,E> | decode
    //@ at before `match input.read_byte()`
    //@+ proof { assert(forall|s: Seq<u8>| s.len() >= 1 ==> s =~= #[trigger] (seq![s[0]] + s.skip(1))); }
}
} // mod basic_result

pub mod basic_optionbool {
use super::*;
broadcast use auto::psc_auto;
//@module basic_optionbool props=C01,C02,C03,C07,C08,C11,C12,C14
//@item codec | struct | OptionBool
impl Encode for OptionBool {
    open spec fn spec_enc(&self) -> Seq<u8> { match self.0 { None => seq![0u8], Some(true) => seq![1u8], Some(false) => seq![2u8] } }
    open spec fn enc_ok(&self) -> bool { true }
    #[verifier::external_body]
    fn size_hint(&self) -> usize { 1 }
    //@fn optionbool.using_encoded :: codec | impl Encode for OptionBool | using_encoded
}
impl Decode for OptionBool {
    open spec fn accepts(b: Seq<u8>) -> Option<nat> { if b.len() >= 1 && b[0] <= 2 { Some(1nat) } else { None } }
    open spec fn dec_bytes(v: &Self) -> Seq<u8> { match v.0 { None => seq![0u8], Some(true) => seq![1u8], Some(false) => seq![2u8] } }
    open spec fn need_depth(b: Seq<u8>) -> nat { 0 }
    open spec fn need_mem(b: Seq<u8>) -> Option<nat> { None }
    proof fn law_bound(b: Seq<u8>) {}
    //@fn optionbool.decode :: codec | impl Decode for OptionBool | decode
    //@ at before `match input.read_byte()`
    //@+ proof { assert(forall|s: Seq<u8>| s.len() >= 1 ==> s =~= #[trigger] (seq![s[0]] + s.skip(1))); }
}
} // mod basic_optionbool

pub mod basic_unit {
use super::*;
broadcast use auto::psc_auto;
//@module basic_unit props=C01,C02,C03,C07,C08,C11,C12,C14
impl Encode for () {
    open spec fn spec_enc(&self) -> Seq<u8> { Seq::<u8>::empty() }
    open spec fn enc_ok(&self) -> bool { true }
    //@fn unit.encode_to :: codec | impl Encode for () | encode_to
    //@ at start
    //@+ proof { broadcast use sl::concat_empty_r; }
    //@fn unit.using_encoded :: codec | impl Encode for () | using_encoded
    //@fn unit.encode :: codec | impl Encode for () | encode
}
impl Decode for () {
    open spec fn accepts(b: Seq<u8>) -> Option<nat> { Some(0nat) }
    open spec fn dec_bytes(v: &Self) -> Seq<u8> { Seq::<u8>::empty() }
    open spec fn need_depth(b: Seq<u8>) -> nat { 0 }
    open spec fn need_mem(b: Seq<u8>) -> Option<nat> { None }
    proof fn law_bound(b: Seq<u8>) {}
    //@fn unit.decode :: codec | impl Decode for () | decode
    //@ at start
    //@+ proof { broadcast use sl::concat_empty_l; }
}
impl<T> Encode for PhantomData<T> {
    open spec fn spec_enc(&self) -> Seq<u8> { Seq::<u8>::empty() }
    open spec fn enc_ok(&self) -> bool { true }
    //@fn phantom.encode_to :: codec | impl<T>Encode for PhantomData<T> | encode_to
    //@ at start
    //@+ proof { broadcast use sl::concat_empty_r; }
}
impl<T> Decode for PhantomData<T> {
    open spec fn accepts(b: Seq<u8>) -> Option<nat> { Some(0nat) }
    open spec fn dec_bytes(v: &Self) -> Seq<u8> { Seq::<u8>::empty() }
    open spec fn need_depth(b: Seq<u8>) -> nat { 0 }
    open spec fn need_mem(b: Seq<u8>) -> Option<nat> { None }
    proof fn law_bound(b: Seq<u8>) {}
    //@fn phantom.decode :: codec | impl<T>Decode for PhantomData<T> | decode
    //@ at start
    //@+ proof { broadcast use sl::concat_empty_l; }
}
} // mod basic_unit
'''

NZ = '''
pub mod nonzero_$T {
use super::*;
broadcast use auto::psc_auto;
//@module nonzero_$T props=C01,C02,C03,C07,C08,C11,C12,C14
impl Encode for $NZ {
    open spec fn spec_enc(&self) -> Seq<u8> { le($VAL(self.get()), $N) }
    open spec fn enc_ok(&self) -> bool { true }
    #[verifier::external_body]
    fn size_hint(&self) -> usize { $N }
    //@fn nonzero.$T.encode_to :: codec | impl Encode for $NZ | encode_to
    //@fn nonzero.$T.encode :: codec | impl Encode for $NZ | encode
    //@fn nonzero.$T.using_encoded :: codec | impl Encode for $NZ | using_encoded
}
impl Decode for $NZ {
    open spec fn accepts(b: Seq<u8>) -> Option<nat> { if b.len() >= $N && b.take($N) != le(0, $N) { Some($Nnat) } else { None } }
    open spec fn dec_bytes(v: &Self) -> Seq<u8> { le($VAL(v.get()), $N) }
    open spec fn need_depth(b: Seq<u8>) -> nat { 0 }
    open spec fn need_mem(b: Seq<u8>) -> Option<nat> { None }
    proof fn law_bound(b: Seq<u8>) {}
    //@fn nonzero.$T.decode :: codec | impl Decode for $NZ | decode
$SUBNZ    //@ at start
    //@+ proof {
    //@+     broadcast use sl::concat_take;
    //@+     assert forall|x: $T| x != 0 implies #[trigger] le($VAL(x), $N) != le(0, $N) by {
    //@+         le_lemmas::pow256_values();
    //@+         if le($VAL(x), $N) == le(0, $N) { le_lemmas::le_inj($VAL(x), 0, $N); }
    //@+     }
    //@+ }
}
} // mod nonzero_$T
'''

LETTERS = [c + '0' for c in 'ABCDEFGHIJKLMNOPQR']


def rnest(xs):
    if len(xs) == 1:
        return xs[0]
    return '%s + (%s)' % (xs[0], rnest(xs[1:]))


def lnest(xs):
    r = xs[0]
    for x in xs[1:]:
        r = '(%s + %s)' % (r, x)
    return r


def tuple_template(k):
    L = LETTERS[18 - k:]
    tl = ','.join(L)
    enc_hdr = 'impl<%s>Encode for(%s%s)' % (','.join('%s:Encode' % x for x in L), tl, ',' if k == 1 else '')
    dec_hdr = 'impl<%s>Decode for(%s%s)' % (','.join('%s:Decode' % x for x in L), tl, ',' if k == 1 else '')
    ty = '(%s%s)' % (', '.join(L), ',' if k == 1 else '')
    enc_spec = rnest(['self.%d.spec_enc()' % i for i in range(k)])
    dec_spec = rnest(['%s::dec_bytes(&v.%d)' % (L[i], i) for i in range(k)])

    def sk(off):
        if off == '0nat':
            return 'b'
        return 'b' + ''.join('.skip(%s as int)' % n.strip() for n in off.split('+'))

    # accepts / need_depth nested
    def acc(i, off):
        # off: spec expression (nat) of bytes consumed so far
        if i == k:
            return 'Some(%s)' % off
        return 'match %s::accepts(%s) { None => None, Some(n%d) => %s }' % (L[i], sk(off), i, acc(i + 1, (off + ' + n%d' % i) if off != '0nat' else 'n%d' % i))

    def nd(i, off):
        cur = '%s::need_depth(%s)' % (L[i], sk(off))
        if i == k - 1:
            return cur
        nxt = nd(i + 1, (off + ' + n%d' % i) if off != '0nat' else 'n%d' % i)
        return 'match %s::accepts(%s) { None => %s, Some(n%d) => max_nat(%s, %s) }' % (L[i], sk(off), cur, i, cur, nxt)
    def nm(i, off):
        cur = '%s::need_mem(%s)' % (L[i], sk(off))
        if i == k - 1:
            return cur
        nxt = nm(i + 1, (off + ' + n%d' % i) if off != '0nat' else 'n%d' % i)
        return 'match %s::accepts(%s) { None => %s, Some(n%d) => mem_add(%s, %s) }' % (L[i], sk(off), cur, i, cur, nxt)

    def lw(i, off):
        if i == k:
            return ''
        return '%s::law_bound(%s); match %s::accepts(%s) { None => {}, Some(n%d) => { %s } }' % (L[i], sk(off), L[i], sk(off), i, lw(i + 1, (off + ' + n%d' % i) if off != '0nat' else 'n%d' % i))
    law = lw(0, '0nat')
    mod = 'tuple_%d' % k
    out = ['pub mod %s {' % mod, 'use super::*;', 'broadcast use auto::psc_min;',
           '//@module %s props=C01,C02,C03,C07,C08,C11,C12,C14' % mod]
    if k > 1:
        es = ['e%d' % i for i in range(k)]
        out += ['pub mod lem { use vstd::prelude::*;',
                'pub proof fn cat_%d(o: Seq<u8>, %s)' % (k, ', '.join('%s: Seq<u8>' % e for e in es)),
                '    ensures %s == o + (%s)' % (lnest(['o'] + es), rnest(es)),
                '{ assert(%s =~= o + (%s)); }' % (lnest(['o'] + es), rnest(es)),
                '} // mod lem']
    out += ['impl<%s> Encode for %s {' % (', '.join('%s: Encode' % x for x in L), ty),
            '    open spec fn spec_enc(&self) -> Seq<u8> { %s }' % enc_spec,
            '    open spec fn enc_ok(&self) -> bool { %s }' % ' && '.join('self.%d.enc_ok()' % i for i in range(k)),
            '    #[verifier::external_body]', '    fn size_hint(&self) -> usize { 0 }',
            '    //@fn tuple%d.encode_to :: codec::inner_tuple_impl | %s | encode_to' % (k, enc_hdr),
            '    //@ subre `\\bT\\b` `W` R2']
    if k > 1:
        out += ['    //@ at after `%s.encode_to(dest);`' % L[-1],
                '    //@+ proof { lem::cat_%d(old(dest).out(), %s); }' % (k, ', '.join('%s.spec_enc()' % x for x in L))]
    if k == 1:
        out += ['    //@fn tuple1.encode :: codec::inner_tuple_impl | %s | encode' % enc_hdr,
                '    //@fn tuple1.using_encoded :: codec::inner_tuple_impl | %s | using_encoded' % enc_hdr]
    out += ['}',
            'impl<%s> Decode for %s {' % (', '.join('%s: Decode' % x for x in L), ty),
            '    open spec fn accepts(b: Seq<u8>) -> Option<nat> { %s }' % acc(0, '0nat'),
            '    open spec fn dec_bytes(v: &Self) -> Seq<u8> { %s }' % dec_spec,
            '    open spec fn need_depth(b: Seq<u8>) -> nat { %s }' % nd(0, '0nat'),
            '    open spec fn need_mem(b: Seq<u8>) -> Option<nat> { %s }' % nm(0, '0nat'),
            '    proof fn law_bound(b: Seq<u8>) { %s }' % law,
            # a fresh z3 per decoder: with the solver state of the module's earlier queries, tuple_14 sent z3 into a
            # phase that ignores its resource limit (2 h); alone every arity takes < 2 s
            '    #[verifier::spinoff_prover]',
            '    //@fn tuple%d.decode :: codec::inner_tuple_impl | %s | decode' % (k, dec_hdr)]
    if k > 1:
        out += ['    //@ subre `\\bINPUT\\b` `I` R2', '    //@ sub `super::Error` `Error` R10']
        ds = ['%s::dec_bytes(&v.%d)' % (L[i], i) for i in range(k)]
        # dec_bytes(v) ++ r in right-nested form, oriented by the value (fires for the returned tuple only); without it
        # arities >= 10 exhaust rlimit 200 rediscovering the reassociation through the extensionality axioms
        out += ['    //@ at start',
                # the memory budget of k fields is a k-fold mem_add: unfolded, z3 case-splits on every Option (2^k);
                # hidden, with the two algebraic facts of mem_assoc as rewrite rules, the proof is linear in k
                '    //@+ hide(mem_add); hide(mem_fits); hide(mem_after);',
                '    //@+ proof { assert forall|r: Option<nat>, a: Option<nat>, b: Option<nat>| #[trigger] mem_fits(r, mem_add(a, b)) == (mem_fits(r, a) && mem_fits(mem_after(r, a), b)) by { mem_assoc(r, a, b); } }',
                '    //@+ proof { assert forall|r: Option<nat>, a: Option<nat>, b: Option<nat>| mem_fits(r, a) implies #[trigger] mem_after(r, mem_add(a, b)) == mem_after(mem_after(r, a), b) by { mem_assoc(r, a, b); } }',
                '    //@+ proof { assert forall|v: %s, r: Seq<u8>| #[trigger] (<%s as Decode>::dec_bytes(&v) + r) == %s by { assert(((%s) + r) =~= %s); } }'
                % (ty, ty, rnest(ds + ['r']), rnest(ds), rnest(ds + ['r']))]
    out += ['}', '} // mod %s' % mod, '']
    return '\n'.join(out)


NZS = [('NonZeroU8', 'u8', 1), ('NonZeroU16', 'u16', 2), ('NonZeroU32', 'u32', 4), ('NonZeroU64', 'u64', 8), ('NonZeroU128', 'u128', 16),
       ('NonZeroI8', 'i8', 1), ('NonZeroI16', 'i16', 2), ('NonZeroI32', 'i32', 4), ('NonZeroI64', 'i64', 8), ('NonZeroI128', 'i128', 16)]


def template(src, flags):
    parts = ['use core::marker::PhantomData;',
             'use core::num::{NonZeroI128, NonZeroI16, NonZeroI32, NonZeroI64, NonZeroI8, NonZeroU128, NonZeroU16, NonZeroU32, NonZeroU64, NonZeroU8};',
             HEAD]
    for nz, t, n in NZS:
        v = '((%s) as nat)' if t.startswith('u') else 'twos((%s) as int, ' + str(n) + ')'
        s = NZ.replace('$Nnat', '%dnat' % n).replace('$NZ', nz).replace('$N', str(n))
        s = re.sub(r'\$VAL\(([^()]*(?:\([^()]*\))?[^()]*)\)', lambda m: v % m.group(1), s)
        if n == 16:
            s = s.replace('$SUBNZ', '    //@ sub `Self::new(` `nz_new_$T(` R14\n')
            s = s.replace('} // mod nonzero_$T', '''// R14: vstd has no zero-test spec for 128-bit NonZero::new; same-bodied wrapper with the assumed contract
#[verifier::external_body]
pub fn nz_new_$T(x: $T) -> (r: Option<$NZ>)
    ensures x == 0 ==> r is None, x != 0 ==> (r is Some && r->0.get() == x),
{ <$NZ>::new(x) }
} // mod nonzero_$T''').replace('$NZ', nz)
        else:
            s = s.replace('$SUBNZ', '')
        parts.append(s.replace('$T', t))
    arities = list(range(1, 19)) if 'all_tuples' in flags else [1, 2, 3, 4]
    for k in arities:
        parts.append(tuple_template(k))
    return '\n'.join(parts)
