"""C16: one lemma per `impl EncodeLike<B> for A` found in the expansion (marker-driven).  The lemma states: whenever `b`
is the logical value `a` stands for (`corr(a, b)`, defined per family from the shape of the impl), encode(a) == encode(b)."""
import re

HEAD = '''
// ===== EncodeLike lemmas (generated from verus/96_like.py; impls enumerated from the expansion) =====
pub trait EncodeLikeSpec<B: Encode + ?Sized>: Encode {
    /// `b` is the logical value that `a` stands for
    spec fn corr(a: &Self, b: &B) -> bool;
    proof fn law_like(a: &Self, b: &B)
        requires Self::corr(a, b)
        ensures a.spec_enc() == b.spec_enc(), a.enc_ok() == b.enc_ok();
}

pub mod like_lemmas {
use super::*;
broadcast use auto::psc_auto;
pub open spec fn corr_seq<T: EncodeLikeSpec<U>, U: Encode>(a: Seq<T>, b: Seq<U>) -> bool {
    a.len() == b.len() && forall|i: int| #![trigger a[i]] 0 <= i < a.len() ==> T::corr(&a[i], &b[i])
}
pub proof fn enc_seq_like<T: EncodeLikeSpec<U>, U: Encode>(a: Seq<T>, b: Seq<U>)
    requires corr_seq(a, b)
    ensures enc_seq(a) == enc_seq(b), enc_ok_seq(a) == enc_ok_seq(b)
    decreases a.len()
{
    if a.len() > 0 {
        assert(corr_seq(a.drop_last(), b.drop_last())) by {
            assert forall|i: int| #![trigger a.drop_last()[i]] 0 <= i < a.drop_last().len() implies T::corr(&a.drop_last()[i], &b.drop_last()[i]) by {
                assert(a.drop_last()[i] == a[i]);
                assert(b.drop_last()[i] == b[i]);
            }
        }
        enc_seq_like(a.drop_last(), b.drop_last());
        T::law_like(&a.last(), &b.last());
        assert(T::corr(&a[a.len() - 1], &b[a.len() - 1]));
    }
    assert(enc_ok_seq(a) == enc_ok_seq(b)) by {
        assert forall|i: int| 0 <= i < a.len() implies (#[trigger] a[i]).enc_ok() == b[i].enc_ok() by { T::law_like(&a[i], &b[i]); }
        if enc_ok_seq(a) { assert forall|i: int| 0 <= i < b.len() implies (#[trigger] b[i]).enc_ok() by { assert(a[i].enc_ok()); } }
        if enc_ok_seq(b) { assert forall|i: int| 0 <= i < a.len() implies (#[trigger] a[i]).enc_ok() by { assert(b[i].enc_ok()); } }
    }
}
} // mod like_lemmas
use like_lemmas::*;
'''

HOLDERS = {'Box<T>': 'Box<T>', '&T': "&'a T", '&&T': "&'a &'b T", '&mut T': "&'a mut T", 'Rc<T>': 'Rc<T>', 'Arc<T>': 'Arc<T>'}


def holder_deref(h, var):
    return {'Box<T>': '**%s', '&T': '**%s', '&&T': '***%s', '&mut T': '**%s', 'Rc<T>': '**%s', 'Arc<T>': '**%s'}[h] % var


def lifetimes(h):
    return {'&T': "'a, ", '&&T': "'a, 'b, ", '&mut T': "'a, "}.get(h, '')


def template(src, flags):
    from extract import LostAnchor
    out = [HEAD]
    found = [it.header for it in src.impls(r'(^|[>\s:])EncodeLike(<| for)')]
    n = 0
    report = []
    LET = [c + '0' for c in 'ABCDEFGHIJKLMNOPQR']
    arities = [1, 2, 3] if 'all_tuples' not in flags else list(range(1, 19))
    for h in found:
        n += 1
        mod = 'like_%d' % n
        body = None
        # reflexive: `impl .. EncodeLike for X` (no type argument): b ranges over the same type, corr is equality
        if re.search(r'EncodeLike for', h):
            report.append((h, 'reflexive', 'syntactic'))
            continue
        m = re.match(r'impl<T:Encode>EncodeLike<T>for(?: )?(Box<T>|&T|&&T|&mut T|Rc<T>|Arc<T>)$', h)
        if m:
            hd = m.group(1)
            body = '''impl<%sT: Encode> EncodeLikeSpec<T> for %s {
    open spec fn corr(a: &Self, b: &T) -> bool { %s == *b }
    proof fn law_like(a: &Self, b: &T) {}
}''' % (lifetimes(hd), HOLDERS[hd], holder_deref(hd, 'a'))
        m2 = re.match(r'impl<T:Encode>EncodeLike<(Box<T>|&T|&&T|&mut T|Rc<T>|Arc<T>)>for T$', h)
        if m2:
            hd = m2.group(1)
            body = '''impl<%sT: Encode> EncodeLikeSpec<%s> for T {
    open spec fn corr(a: &Self, b: &%s) -> bool { *a == %s }
    proof fn law_like(a: &Self, b: &%s) {}
}''' % (lifetimes(hd), HOLDERS[hd], HOLDERS[hd], holder_deref(hd, 'b'), HOLDERS[hd])
        if h == 'impl<T:EncodeLike<U>,U:Encode>EncodeLike<Option<U>>for Option<T>':
            body = '''impl<T: EncodeLikeSpec<U>, U: Encode> EncodeLikeSpec<Option<U>> for Option<T> {
    open spec fn corr(a: &Self, b: &Option<U>) -> bool { match (a, b) { (Some(x), Some(y)) => T::corr(x, y), (None, None) => true, _ => false } }
    proof fn law_like(a: &Self, b: &Option<U>) { match (a, b) { (Some(x), Some(y)) => { T::law_like(x, y); }, _ => {} } }
}'''
        if h.startswith('impl<T,LikeT,E,LikeE>EncodeLike<Result<LikeT,LikeE>>for Result<T,E>'):
            body = '''impl<T: EncodeLikeSpec<LikeT>, LikeT: Encode, E: EncodeLikeSpec<LikeE>, LikeE: Encode> EncodeLikeSpec<Result<LikeT, LikeE>> for Result<T, E> {
    open spec fn corr(a: &Self, b: &Result<LikeT, LikeE>) -> bool { match (a, b) { (Ok(x), Ok(y)) => T::corr(x, y), (Err(x), Err(y)) => E::corr(x, y), _ => false } }
    proof fn law_like(a: &Self, b: &Result<LikeT, LikeE>) { match (a, b) { (Ok(x), Ok(y)) => { T::law_like(x, y); }, (Err(x), Err(y)) => { E::law_like(x, y); }, _ => {} } }
}'''
        if h == 'impl<T:EncodeLike<U>,U:Encode,const N:usize>EncodeLike<[U;N]>for[T;N]':
            body = '''impl<T: EncodeLikeSpec<U>, U: Encode, const N: usize> EncodeLikeSpec<[U; N]> for [T; N] {
    open spec fn corr(a: &Self, b: &[U; N]) -> bool { corr_seq(a@, b@) }
    proof fn law_like(a: &Self, b: &[U; N]) { enc_seq_like(a@, b@); }
}'''
        seqs = {'Vec<U>': 'Vec<U>', 'VecDeque<U>': 'std::collections::VecDeque<U>', '&[U]': "&'a [U]"}
        seqa = {'Vec<T>': 'Vec<T>', 'VecDeque<T>': 'std::collections::VecDeque<T>', '&[T]': "&'a [T]"}
        m3 = re.match(r'impl<T:EncodeLike<U>,U:Encode>EncodeLike<(Vec<U>|VecDeque<U>|&\[U\])>for(?: )?(Vec<T>|VecDeque<T>|&\[T\])$', h)
        if m3:
            B, A = m3.group(1), m3.group(2)
            lt = "'a, " if ('&' in B or '&' in A) else ''
            body = '''impl<%sT: EncodeLikeSpec<U>, U: Encode> EncodeLikeSpec<%s> for %s {
    open spec fn corr(a: &Self, b: &%s) -> bool { corr_seq(a@, b@) }
    proof fn law_like(a: &Self, b: &%s) { enc_seq_like(a@, b@); }
}''' % (lt, seqs[B], seqa[A], seqs[B], seqs[B])
        # tuples
        mt = re.match(r'impl<(.*)>crate::EncodeLike<\((.*?),?\)>for\((.*?),?\)$', h)
        if mt:
            As = mt.group(3).split(',')
            Bs = mt.group(2).split(',')
            k = len(As)
            if k not in arities:
                report.append((h, 'tuple arity %d' % k, 'thorough tier only'))
                continue
            gen = ', '.join('%s: EncodeLikeSpec<%s>, %s: Encode' % (x, y, y) for x, y in zip(As, Bs))
            tyA = '(%s%s)' % (', '.join(As), ',' if k == 1 else '')
            tyB = '(%s%s)' % (', '.join(Bs), ',' if k == 1 else '')
            body = '''impl<%s> EncodeLikeSpec<%s> for %s {
    open spec fn corr(a: &Self, b: &%s) -> bool { %s }
    proof fn law_like(a: &Self, b: &%s) { %s }
}''' % (gen, tyB, tyA, tyB, ' && '.join('%s::corr(&a.%d, &b.%d)' % (As[i], i, i) for i in range(k)), tyB,
                ' '.join('%s::law_like(&a.%d, &b.%d);' % (As[i], i, i) for i in range(k)))
        # bytes::Bytes against byte slices / vectors (the Encode forwarders of Bytes are under contract: wrapper_bytes)
        mb = re.match(r'impl EncodeLike<(&\[u8\]|Vec<u8>|Bytes)>for ?(Bytes|&\[u8\]|Vec<u8>)$', h)
        if mb and 'Bytes' in (mb.group(1), mb.group(2)) and mb.group(1) != mb.group(2):
            ty = {'&[u8]': "&'a [u8]", 'Vec<u8>': 'Vec<u8>', 'Bytes': 'bytes::Bytes'}
            B, A = ty[mb.group(1)], ty[mb.group(2)]
            body = '''impl<'a> EncodeLikeSpec<%s> for %s {
    open spec fn corr(a: &Self, b: &%s) -> bool { a@ == b@ }
    proof fn law_like(a: &Self, b: &%s) {}
}''' % (B, A, B, B)
        if body is None:
            if re.search(r'BTreeMap|BTreeSet|LinkedList|BinaryHeap|Bytes|String|&str|Cow|Ref<', h):
                report.append((h, 'not decided', 'Encode impl of this family is not under a Verus contract (std collection iteration / str / bytes / Cow / Ref)'))
                continue
            raise LostAnchor('EncodeLike impl without a registered lemma: `%s`' % h)
        report.append((h, 'lemma', mod))
        out.append('pub mod %s {\nuse super::*;\nbroadcast use auto::psc_auto;\n//@module %s props=C16\n// %s\n%s\n} // mod %s\n' % (mod, mod, h, body, mod))
    out.append('// EncodeLike impls found: %d' % len(found))
    for h, kind, note in report:
        out.append('//   [%s] %s  -- %s' % (kind, h, note))
    return '\n'.join(out), report


_t = template


def template(src, flags, g=None):  # noqa: F811
    text, report = _t(src, flags)
    if g is not None:
        g.meta['encode_like'] = [{'impl': h, 'kind': k, 'note': n} for h, k, n in report]
    return text
