"""MaxEncodedLen impls (src/max_encoded_len.rs), enumerated from the expansion (marker-driven): an impl without a
registered obligation is reported (exit 2), never silently accepted."""
import re

HEAD = '''
// ===== MaxEncodedLen (generated from verus/75_mel.py) =====
/// every value of T encodes to at most m bytes
pub open spec fn enc_bounded<T: Encode>(m: nat) -> bool {
    forall|v: T| (#[trigger] v.spec_enc()).len() <= m
}
pub trait MaxEncodedLen: Encode + Sized {
    //@fn trait.MaxEncodedLen.max_encoded_len :: max_encoded_len | pub trait MaxEncodedLen:Encode | max_encoded_len
    //@ ret r
    //@ decl
    //@+ ensures r == usize::MAX || enc_bounded::<Self>(r as nat),
}

// size facts of core types that vstd does not state (Rust layout guarantees: NonZero<T> has the size of T; bool is one byte);
// closed by the Kani harness kani.size_of_facts (compile-time constants)
#[verifier::external_body]
pub proof fn size_of_facts()
    ensures
        vstd::layout::size_of::<bool>() == 1,
        vstd::layout::size_of::<NonZeroU8>() == 1, vstd::layout::size_of::<NonZeroU16>() == 2, vstd::layout::size_of::<NonZeroU32>() == 4,
        vstd::layout::size_of::<NonZeroU64>() == 8, vstd::layout::size_of::<NonZeroU128>() == 16,
        vstd::layout::size_of::<NonZeroI8>() == 1, vstd::layout::size_of::<NonZeroI16>() == 2, vstd::layout::size_of::<NonZeroI32>() == 4,
        vstd::layout::size_of::<NonZeroI64>() == 8, vstd::layout::size_of::<NonZeroI128>() == 16,
{}

pub mod mel_lemmas {
use super::*;
broadcast use auto::psc_auto;
pub proof fn compact_len_le(x: nat, w: nat)
    requires x < pow256(w), w == 1 || w == 2 || w == 4 || w == 8 || w == 16
    ensures compact(x).len() <= (if w == 1 { 2nat } else if w == 2 { 4 } else { w + 1 })
{
    le_lemmas::pow256_values();
    if x >= 1073741824 {
        compact_lemmas::nbytes_upper(x, w);
        let k = big_len(x);
        assert(k <= w);
    }
}
pub proof fn enc_seq_len_le<T: Encode>(s: Seq<T>, m: nat)
    requires forall|v: T| (#[trigger] v.spec_enc()).len() <= m
    ensures enc_seq(s).len() <= s.len() * m
    decreases s.len()
{
    if s.len() > 0 {
        enc_seq_len_le(s.drop_last(), m);
        assert(s.last().spec_enc().len() <= m);
        assert((s.len() - 1) * m + m == s.len() * m) by (nonlinear_arith);
    }
}
} // mod mel_lemmas
'''

PRIM = '''
pub mod mel_$M {
use super::*;
broadcast use auto::psc_auto;
//@module mel_$M props=C13
impl MaxEncodedLen for $T {
    //@fn mel.$M :: max_encoded_len | impl MaxEncodedLen for $T | max_encoded_len
    //@ ret r
    //@+ ensures r == vstd::layout::size_of::<$T>(),
    //@ at start
    //@+ proof { broadcast use vstd::layout::layout_of_primitives; size_of_facts(); }
}
} // mod mel_$M
'''

COMPACT = '''
pub mod mel_compact_$M {
use super::*;
broadcast use auto::psc_auto;
//@module mel_compact_$M props=C04,C13
impl MaxEncodedLen for Compact<$T> {
    //@fn mel.compact.$M :: max_encoded_len | impl MaxEncodedLen for Compact<$T> | max_encoded_len
    //@ at start
    //@+ proof {
    //@+     le_lemmas::pow256_values();
    //@+     assert forall|v: Compact<$T>| (#[trigger] v.spec_enc()).len() <= $K by { mel_lemmas::compact_len_le(v.0 as nat, $W); }
    //@+ }
}
} // mod mel_compact_$M
'''

GENERIC = {
    'impl MaxEncodedLen for()': ('unit', 'impl MaxEncodedLen for ()', ''),
    'impl<T:MaxEncodedLen,const N:usize>MaxEncodedLen for[T;N]': ('array', 'impl<T: MaxEncodedLen, const N: usize> MaxEncodedLen for [T; N]',
        '''    //@ at start
    //@+ proof {
    //@+     assert forall|m: nat| #[trigger] enc_bounded::<T>(m) implies enc_bounded::<[T; N]>((m * N) as nat) by {
    //@+         assert forall|a: [T; N]| (#[trigger] a.spec_enc()).len() <= m * N by {
    //@+             mel_lemmas::enc_seq_len_le(a@, m);
    //@+             assert(a@.len() * m == m * N) by (nonlinear_arith) requires a@.len() == N;
    //@+         }
    //@+     }
    //@+     assert(N >= 1 ==> (usize::MAX as nat) * N >= usize::MAX) by (nonlinear_arith);
    //@+     if N == 0 {
    //@+         assert forall|a: [T; N]| (#[trigger] a.spec_enc()).len() <= 0 by { assert(a@.len() == 0); }
    //@+     }
    //@+ }'''),
    'impl<T:MaxEncodedLen>MaxEncodedLen for Box<T>': ('box', 'impl<T: MaxEncodedLen> MaxEncodedLen for Box<T>', ''),
    'impl<T:MaxEncodedLen>MaxEncodedLen for Arc<T>': ('arc', 'impl<T: MaxEncodedLen> MaxEncodedLen for Arc<T>', ''),
    'impl<T:MaxEncodedLen>MaxEncodedLen for Option<T>': ('option', 'impl<T: MaxEncodedLen> MaxEncodedLen for Option<T>', ''),
    'impl<T,E>MaxEncodedLen for Result<T,E>where T:MaxEncodedLen,E:MaxEncodedLen': ('result', 'impl<T: MaxEncodedLen, E: MaxEncodedLen> MaxEncodedLen for Result<T, E>', ''),
    'impl<T>MaxEncodedLen for PhantomData<T>': ('phantom', 'impl<T> MaxEncodedLen for PhantomData<T>', ''),
    'impl MaxEncodedLen for Duration': ('duration', 'impl MaxEncodedLen for Duration', '''    //@ at start
    //@+ proof { broadcast use vstd::layout::layout_of_primitives; }'''),
    'impl<T:MaxEncodedLen>MaxEncodedLen for Range<T>': ('range', 'impl<T: MaxEncodedLen> MaxEncodedLen for Range<T>', ''),
}
SKIP = {
    'impl<T:MaxEncodedLen>MaxEncodedLen for RangeInclusive<T>': 'RangeInclusive accessors (start()/end()) have no Verus spec: Encode impl not under contract',
}

G_TMPL = '''
pub mod mel_$M {
use super::*;
broadcast use auto::psc_auto;
//@module mel_$M props=C13
$HDR {
    //@fn mel.$M :: max_encoded_len | $SRC | max_encoded_len
$HINT
}
} // mod mel_$M
'''

PRIMS = ['u8', 'u16', 'u32', 'u64', 'u128', 'i8', 'i16', 'i32', 'i64', 'i128', 'bool',
         'NonZeroU8', 'NonZeroU16', 'NonZeroU32', 'NonZeroU64', 'NonZeroU128', 'NonZeroI8', 'NonZeroI16', 'NonZeroI32', 'NonZeroI64', 'NonZeroI128']
COMPACTS = {'u8': (1, 2), 'u16': (2, 4), 'u32': (4, 5), 'u64': (8, 9), 'u128': (16, 17)}
LETTERS = ['TupleElement%d' % i for i in range(18)]


def tuple_hdr(k):
    return 'impl<%s>MaxEncodedLen for(%s%s)' % (','.join('%s:MaxEncodedLen' % x for x in LETTERS[:k]), ','.join(LETTERS[:k]), ',' if k == 1 else '')


def template(src, flags):
    from extract import LostAnchor
    found = [it.header for it in src.impls(r'MaxEncodedLen for', mod='max_encoded_len')]
    out = [HEAD]
    known = set()
    for t in PRIMS:
        known.add('impl MaxEncodedLen for %s' % t)
    for t in COMPACTS:
        known.add('impl MaxEncodedLen for Compact<%s>' % t)
    known.add('impl MaxEncodedLen for Compact<()>')
    known |= set(GENERIC.keys()) | set(SKIP.keys())
    tuple_hdrs = {tuple_hdr(k): k for k in range(1, 19)}
    known |= set(tuple_hdrs.keys())
    unknown = [h for h in found if h not in known]
    if unknown:
        raise LostAnchor('MaxEncodedLen impl(s) without a registered obligation: %s' % unknown)
    arities = list(range(1, 19)) if 'all_tuples' in flags else [1, 2, 3, 4]
    for h in found:
        if h in SKIP:
            out.append('// not under contract: `%s`: %s' % (h, SKIP[h]))
            continue
        m = re.match(r'impl MaxEncodedLen for (\w+)$', h)
        if m and m.group(1) in PRIMS:
            out.append(PRIM.replace('$M', m.group(1).lower()).replace('$T', m.group(1)))
            continue
        m = re.match(r'impl MaxEncodedLen for Compact<(\w+)>$', h)
        if m and m.group(1) in COMPACTS:
            w, k = COMPACTS[m.group(1)]
            out.append(COMPACT.replace('$M', m.group(1)).replace('$T', m.group(1)).replace('$W', str(w)).replace('$K', str(k)))
            continue
        if h == 'impl MaxEncodedLen for Compact<()>':
            out.append('// not under contract: Compact<()> (unit compact: Encode impl for CompactRef<()> not extracted)')
            continue
        if h in tuple_hdrs:
            k = tuple_hdrs[h]
            if k not in arities:
                continue
            L = LETTERS[:k]
            hdr = 'impl<%s> MaxEncodedLen for (%s%s)' % (', '.join('%s: MaxEncodedLen' % x for x in L), ', '.join(L), ',' if k == 1 else '')
            hint = ''
            pre = ''
            if k >= 5:
                # k saturating additions of bounds that may themselves be usize::MAX: unguided, z3 splits 2^k cases
                # (arity 9: 10 M rlimit units, arity 10 and up fail).  One ghost fact per statement -- "len is saturated or
                # bounds the first i parts of every value" -- makes the proof linear in k.
                ty = '(%s)' % ', '.join(L)
                parts = ' '.join('if i == %d { v.%d.spec_enc().len() } else' % (i + 1, i) for i in range(k))
                pre = ('pub open spec fn plen<%s>(v: %s, i: nat) -> nat\n    decreases i\n{ if i == 0 { 0 } else if i == 1 { v.0.spec_enc().len() } else { plen(v, (i - 1) as nat) + (%s { 0nat }) } }\n'
                       % (', '.join('%s: Encode' % x for x in L), ty, parts))
                hs = []
                for i in range(k):
                    hs.append('    //@ at after `len = len.saturating_add(%s::max_encoded_len());`' % L[i])
                    if i == 0:
                        hs.append('    //@+ proof { assert(len == usize::MAX || forall|v: %s| #[trigger] plen(v, 1) <= len); }' % ty)
                    else:
                        hs.append('    //@+ proof { if len != usize::MAX { assert forall|v: %s| #[trigger] plen(v, %d) <= len by { assert(plen(v, %d) == plen(v, %d) + v.%d.spec_enc().len()); } } }' % (ty, i + 1, i + 1, i, i))
                hs.append('    //@+ proof { if len != usize::MAX { assert forall|v: %s| (#[trigger] v.spec_enc()).len() <= len by { reveal_with_fuel(plen, %d); assert(plen(v, %d) <= len); } } }' % (ty, k + 2, k))
                hint = '\n'.join(hs)
            out.append(G_TMPL.replace('$M', 'tuple_%d' % k).replace('$HDR', pre + hdr).replace('$SRC', h).replace('$HINT', hint))
            continue
        mname, hdr, hint = GENERIC[h]
        out.append(G_TMPL.replace('$M', mname).replace('$HDR', hdr).replace('$SRC', h).replace('$HINT', hint))
    return '\n'.join(out)
