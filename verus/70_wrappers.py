"""R5 instances of the blanket `impl<T, X> Encode for X where X: WrapperTypeEncode<Target = T>` and wrapper decoders."""
import re

BLANKET = 'impl<T,X>Encode for X where T:Encode + ?Sized,X:WrapperTypeEncode<Target = T>'

# carrier header in the expansion -> (module name, Verus impl header, deref spec expr)
CARRIERS = {
    'impl<T:?Sized>WrapperTypeEncode for Box<T>': ('box', "impl<T: Encode + ?Sized> Encode for Box<T>", '(**self)'),
    'impl<T:?Sized>WrapperTypeEncode for&T': None,  # verus/50_compact.py (wrapper_ref)
    'impl<T:?Sized>WrapperTypeEncode for&mut T': ('refmut', "impl<'a, T: Encode + ?Sized> Encode for &'a mut T", '(**self)'),
    'impl<T:?Sized>WrapperTypeEncode for Rc<T>': ('rc', "impl<T: Encode + ?Sized> Encode for Rc<T>", '(**self)'),
    'impl<T:?Sized>WrapperTypeEncode for Arc<T>': ('arc', "impl<T: Encode + ?Sized> Encode for Arc<T>", '(**self)'),
    "impl<T:ToOwned + ?Sized>WrapperTypeEncode for Cow<'_,T>": 'skip:Cow (Deref through ToOwned::Owned: Borrow<T> is outside Verus; bounded Kani stand-in)',
    'impl<T>WrapperTypeEncode for Vec<T>': ('vec', "impl<T: Encode> Encode for Vec<T>", 'VEC'),
    'impl WrapperTypeEncode for String': 'skip:String (str byte semantics outside Verus; see str module)',
    'impl WrapperTypeEncode for Bytes': ('bytes', "impl Encode for bytes::Bytes", 'BYTES'),  # stand-in `bytes` module of verus/82_bytes.rs.in (Deref contract assumed)
    "impl<T:EncodeLike<U>,U:Encode>crate::WrapperTypeEncode for Ref<'_,T,U>": 'skip:Ref (see encode_like module)',
}

TMPL = '''
pub mod wrapper_$M {
use super::*;
broadcast use auto::psc_auto;
//@module wrapper_$M props=C01,C06,C07,C16
$HDR {
    open spec fn spec_enc(&self) -> Seq<u8> { $D.spec_enc() }
    open spec fn enc_ok(&self) -> bool { $D.enc_ok() }
    #[verifier::external_body]
    fn size_hint(&self) -> usize { 0 }
    //@fn wrapper.$M.using_encoded :: codec | $B | using_encoded
    //@fn wrapper.$M.encode :: codec | $B | encode
    //@fn wrapper.$M.encode_to :: codec | $B | encode_to
}
} // mod wrapper_$M
'''


def template(src, flags):
    found = set(it.header for it in src.impls(r'WrapperTypeEncode for'))
    known = set(CARRIERS.keys())
    from extract import LostAnchor
    if found - known:
        raise LostAnchor('unregistered WrapperTypeEncode carrier(s): %s (R5 instances must be added)' % sorted(found - known))
    out = ['// ===== WrapperTypeEncode instances (generated from verus/70_wrappers.py; carriers enumerated from the expansion) =====',
           'use std::rc::Rc; use std::sync::Arc;']
    for h in sorted(found):
        c = CARRIERS[h]
        if c is None or isinstance(c, str):
            out.append('// carrier `%s`: %s' % (h, 'instantiated elsewhere' if c is None else c[5:]))
            continue
        m, hdr, d = c
        if d == 'VEC':
            t = TMPL.replace('$D.spec_enc()', 'compact(self@.len()) + enc_seq(self@)').replace('$D.enc_ok()', 'self@.len() <= u32::MAX && enc_ok_seq(self@)')
            out.append(t.replace('$M', m).replace('$HDR', hdr).replace('$B', BLANKET))
            continue
        if d == 'BYTES':
            t = TMPL.replace('$D.spec_enc()', 'compact(self@.len()) + enc_seq::<u8>(self@)').replace('$D.enc_ok()', 'self@.len() <= u32::MAX && enc_ok_seq::<u8>(self@)')
            out.append(t.replace('$M', m).replace('$HDR', hdr).replace('$B', BLANKET))
            continue
        out.append(TMPL.replace('$M', m).replace('$HDR', hdr).replace('$D', d).replace('$B', BLANKET))
    return '\n'.join(out)
