"""C02 / C14 lemma layer: spec-level laws proved per type constructor (separate trait, so the exec obligations are
not perturbed), and the generic theorems that follow from them."""

HEAD = r'''
// ===== laws: prefix-closure and round trip (generated from verus/95_laws.py) =====
pub trait DecodeLaws: Decode {
    /// values the decoder can produce / whose counts the format can represent
    spec fn dec_ok(v: &Self) -> bool;
    /// self-delimiting: acceptance (and the depth need) is decided by the accepted prefix alone
    proof fn law_prefix(b: Seq<u8>, s: Seq<u8>)
        ensures Self::accepts(b) matches Some(n) ==> (
            Self::accepts(b.take(n as int) + s) == Some(n)
            && Self::need_depth(b.take(n as int) + s) == Self::need_depth(b));
    /// the encoding of a value, followed by anything, is accepted with exactly its length
    proof fn law_roundtrip(v: &Self, s: Seq<u8>)
        requires Self::dec_ok(v)
        ensures Self::accepts(Self::dec_bytes(v) + s) == Some(Self::dec_bytes(v).len());
}
/// Encode and Decode sides describe the same bytes
pub trait CodecLaws: Encode + DecodeLaws {
    proof fn law_coherent(v: &Self)
        ensures v.spec_enc() == Self::dec_bytes(v), v.enc_ok() ==> Self::dec_ok(v);
}

pub mod laws_generic {
use super::*;
broadcast use auto::psc_auto;
//@module laws_generic props=C02,C14
//@lemma c14.strict_prefix props=C14
/// C14: every strict prefix of an encoding is rejected
pub proof fn strict_prefix_rejected<T: DecodeLaws>(v: &T, k: int)
    requires T::dec_ok(v), 0 <= k < T::dec_bytes(v).len()
    ensures T::accepts(T::dec_bytes(v).take(k)) is None
{
    let e = T::dec_bytes(v);
    let p = e.take(k);
    T::law_bound(p);
    match T::accepts(p) {
        None => {},
        Some(n) => {
            T::law_prefix(p, e.skip(n as int));
            assert(p.take(n as int) + e.skip(n as int) =~= e);
            T::law_roundtrip(v, Seq::<u8>::empty());
            assert(e + Seq::<u8>::empty() =~= e);
        }
    }
}
//@lemma c14.concat props=C14
/// C14: a concatenation of encodings decodes value by value
pub proof fn concat_splits<T: DecodeLaws, U: DecodeLaws>(v1: &T, v2: &U, s: Seq<u8>)
    requires T::dec_ok(v1), U::dec_ok(v2)
    ensures
        T::accepts(T::dec_bytes(v1) + (U::dec_bytes(v2) + s)) == Some(T::dec_bytes(v1).len()),
        U::accepts((T::dec_bytes(v1) + (U::dec_bytes(v2) + s)).skip(T::dec_bytes(v1).len() as int)) == Some(U::dec_bytes(v2).len()),
{
    T::law_roundtrip(v1, U::dec_bytes(v2) + s);
    U::law_roundtrip(v2, s);
}
//@lemma c02.roundtrip props=C02
/// C02: whatever a contract-abiding decoder returns on encode(v) ++ s re-encodes to encode(v) and leaves exactly s
pub proof fn decode_of_encode<T: CodecLaws>(v: &T, s: Seq<u8>, vp: &T, rest: Seq<u8>)
    requires
        v.enc_ok(),
        // the Ok clause of the Decode contract for input bytes `encode(v) ++ s`
        v.spec_enc() + s == T::dec_bytes(vp) + rest,
        T::accepts(v.spec_enc() + s) == Some(T::dec_bytes(vp).len()),
    ensures
        T::accepts(v.spec_enc() + s) == Some(v.spec_enc().len()),
        T::dec_bytes(vp) == v.spec_enc(),
        rest == s,
{
    T::law_coherent(v);
    T::law_roundtrip(v, s);
    let e = v.spec_enc();
    let d = T::dec_bytes(vp);
    assert(d =~= (d + rest).take(d.len() as int));
    assert(e =~= (e + s).take(e.len() as int));
    assert(rest =~= (d + rest).skip(d.len() as int));
    assert(s =~= (e + s).skip(e.len() as int));
}
} // mod laws_generic
'''

INT = '''
pub mod laws_$T {
use super::*;
broadcast use auto::psc_auto;
//@module laws_$T props=C02,C14
impl DecodeLaws for $T {
    open spec fn dec_ok(v: &Self) -> bool { true }
    proof fn law_prefix(b: Seq<u8>, s: Seq<u8>) {}
    proof fn law_roundtrip(v: &Self, s: Seq<u8>) {}
}
impl CodecLaws for $T { proof fn law_coherent(v: &Self) {} }
} // mod laws_$T
'''

REST = r'''
pub mod laws_basic {
use super::*;
use crate::basic_optionbool::OptionBool;
broadcast use auto::psc_auto;
//@module laws_basic props=C02,C14
impl DecodeLaws for bool {
    open spec fn dec_ok(v: &Self) -> bool { true }
    proof fn law_prefix(b: Seq<u8>, s: Seq<u8>) { if b.len() >= 1 { assert((b.take(1) + s)[0] == b[0]); } }
    proof fn law_roundtrip(v: &Self, s: Seq<u8>) { assert((Self::dec_bytes(v) + s)[0] == Self::dec_bytes(v)[0]); }
}
impl CodecLaws for bool { proof fn law_coherent(v: &Self) {} }
impl DecodeLaws for () {
    open spec fn dec_ok(v: &Self) -> bool { true }
    proof fn law_prefix(b: Seq<u8>, s: Seq<u8>) {}
    proof fn law_roundtrip(v: &Self, s: Seq<u8>) {}
}
impl CodecLaws for () { proof fn law_coherent(v: &Self) {} }
impl DecodeLaws for OptionBool {
    open spec fn dec_ok(v: &Self) -> bool { true }
    proof fn law_prefix(b: Seq<u8>, s: Seq<u8>) { if b.len() >= 1 { assert((b.take(1) + s)[0] == b[0]); } }
    proof fn law_roundtrip(v: &Self, s: Seq<u8>) { assert((Self::dec_bytes(v) + s)[0] == Self::dec_bytes(v)[0]); }
}
impl CodecLaws for OptionBool { proof fn law_coherent(v: &Self) {} }
impl<T: DecodeLaws> DecodeLaws for Option<T> {
    open spec fn dec_ok(v: &Self) -> bool { match v { Some(t) => T::dec_ok(t), None => true } }
    proof fn law_prefix(b: Seq<u8>, s: Seq<u8>) {
        if b.len() >= 1 {
            T::law_bound(b.skip(1));
            match Self::accepts(b) {
                None => {},
                Some(n) => {
                    assert((b.take(n as int) + s)[0] == b[0]);
                    if b[0] == 1 {
                        T::law_prefix(b.skip(1), s);
                        assert((b.take(n as int) + s).skip(1) =~= b.skip(1).take(n - 1) + s);
                    }
                }
            }
        }
    }
    proof fn law_roundtrip(v: &Self, s: Seq<u8>) {
        let e = Self::dec_bytes(v);
        assert((e + s)[0] == e[0]);
        match v {
            None => {},
            Some(t) => { T::law_roundtrip(t, s); assert((e + s).skip(1) =~= T::dec_bytes(t) + s); },
        }
    }
}
impl<T: CodecLaws> CodecLaws for Option<T> {
    proof fn law_coherent(v: &Self) { match v { Some(t) => { T::law_coherent(t); }, None => {} } }
}
impl<T: DecodeLaws, E: DecodeLaws> DecodeLaws for Result<T, E> {
    open spec fn dec_ok(v: &Self) -> bool { match v { Ok(t) => T::dec_ok(t), Err(e) => E::dec_ok(e) } }
    proof fn law_prefix(b: Seq<u8>, s: Seq<u8>) {
        if b.len() >= 1 {
            T::law_bound(b.skip(1));
            E::law_bound(b.skip(1));
            match Self::accepts(b) {
                None => {},
                Some(n) => {
                    assert((b.take(n as int) + s)[0] == b[0]);
                    assert((b.take(n as int) + s).skip(1) =~= b.skip(1).take(n - 1) + s);
                    if b[0] == 0 { T::law_prefix(b.skip(1), s); } else { E::law_prefix(b.skip(1), s); }
                }
            }
        }
    }
    proof fn law_roundtrip(v: &Self, s: Seq<u8>) {
        let e = Self::dec_bytes(v);
        assert((e + s)[0] == e[0]);
        match v {
            Ok(t) => { T::law_roundtrip(t, s); assert((e + s).skip(1) =~= T::dec_bytes(t) + s); },
            Err(x) => { E::law_roundtrip(x, s); assert((e + s).skip(1) =~= E::dec_bytes(x) + s); },
        }
    }
}
impl<T: CodecLaws, E: CodecLaws> CodecLaws for Result<T, E> {
    proof fn law_coherent(v: &Self) { match v { Ok(t) => { T::law_coherent(t); }, Err(e) => { E::law_coherent(e); } } }
}
} // mod laws_basic

pub mod laws_compact {
use super::*;
broadcast use auto::psc_auto;
//@module laws_compact props=C02,C04,C14
//@lemma c04.dec_prefix props=C04,C14
/// the canonical-form recogniser looks only at the form it recognises
pub proof fn compact_dec_prefix(b: Seq<u8>, s: Seq<u8>)
    ensures compact_dec(b) matches Some((x, n)) ==> (n <= b.len() && compact_dec(b.take(n as int) + s) == Some((x, n)))
{
    reveal(compact_dec);
    match compact_dec(b) {
        None => {},
        Some((x, n)) => {
            let c = b.take(n as int) + s;
            assert(c[0] == b[0]);
            if b[0] % 4 == 1 { assert(c.take(2) =~= b.take(2)); }
            if b[0] % 4 == 2 { assert(c.take(4) =~= b.take(4)); }
            if b[0] % 4 == 3 { assert(c.subrange(1, n as int) =~= b.subrange(1, n as int)); }
        }
    }
}
//@lemma c04.canonical props=C04
/// canonicity: an accepted byte string starts with exactly compact(value)
pub proof fn compact_dec_canonical(b: Seq<u8>)
    ensures compact_dec(b) matches Some((x, n)) ==> (n <= b.len() && b.take(n as int) == compact(x))
{
    reveal(compact_dec);
    le_lemmas::pow256_values();
    match compact_dec(b) {
        None => {},
        Some((x, n)) => {
            if b[0] % 4 == 0 { compact_dec_lemmas::mode0(b); assert(b.take(1) =~= seq![b[0]]); }
            else if b[0] % 4 == 1 { compact_dec_lemmas::mode1(b); }
            else if b[0] % 4 == 2 { compact_dec_lemmas::mode2(b); }
            else {
                compact_dec_lemmas::mode3(b);
                let k = (b[0] / 4) as nat + 4;
                assert(b.take(n as int) =~= seq![b[0]] + b.subrange(1, 1 + k as int));
            }
        }
    }
}
$COMPACT
} // mod laws_compact

pub mod laws_vec {
use super::*;
use crate::laws_compact::compact_dec_prefix;
broadcast use auto::psc_auto;
//@module laws_vec props=C02,C14
pub open spec fn dec_ok_seq<T: DecodeLaws>(s: Seq<T>) -> bool { forall|i: int| #![trigger s[i]] 0 <= i < s.len() ==> T::dec_ok(&s[i]) }

pub proof fn accepts_seq_prefix<T: DecodeLaws>(b: Seq<u8>, count: nat, s: Seq<u8>)
    ensures accepts_seq::<T>(b, count) matches Some(n) ==> (
        n <= b.len() && accepts_seq::<T>(b.take(n as int) + s, count) == Some(n)
        && nd_seq::<T>(b.take(n as int) + s, count) == nd_seq::<T>(b, count)
        && forall|j: nat| j <= count ==> (#[trigger] accepts_seq::<T>(b, j)) is Some)
    decreases count
{
    accepts_seq_bound::<T>(b, count);
    if count > 0 {
        match accepts_seq::<T>(b, count) {
            None => {},
            Some(n) => {
                let m = accepts_seq::<T>(b, (count - 1) as nat)->0;
                accepts_seq_prefix::<T>(b, (count - 1) as nat, b.skip(m as int).take(n - m) + s);
                accepts_seq_bound::<T>(b, (count - 1) as nat);
                T::law_bound(b.skip(m as int));
                T::law_prefix(b.skip(m as int), s);
                let c = b.take(n as int) + s;
                assert(b.take(m as int) + (b.skip(m as int).take(n - m) + s) =~= c);
                assert(c.skip(m as int) =~= b.skip(m as int).take(n - m) + s);
            }
        }
    }
}
pub proof fn accepts_seq_roundtrip<T: DecodeLaws>(v: Seq<T>, s: Seq<u8>)
    requires dec_ok_seq(v)
    ensures accepts_seq::<T>(dec_seq(v) + s, v.len()) == Some(dec_seq(v).len())
    decreases v.len()
{
    if v.len() > 0 {
        let w = v.drop_last();
        let last = v.last();
        accepts_seq_roundtrip::<T>(w, T::dec_bytes(&last) + s);
        T::law_roundtrip(&last, s);
        assert(dec_seq(v) + s =~= dec_seq(w) + (T::dec_bytes(&last) + s));
        assert((dec_seq(v) + s).skip(dec_seq(w).len() as int) =~= T::dec_bytes(&last) + s);
    }
}
impl<T: DecodeLaws> DecodeLaws for Vec<T> {
    open spec fn dec_ok(v: &Self) -> bool { v@.len() < 4294967296 && dec_ok_seq(v@) }
    proof fn law_prefix(b: Seq<u8>, s: Seq<u8>) {
        compact_dec_prefix(b, s);
        match compact_dec(b) {
            None => {},
            Some((x, n)) => {
                if x < 4294967296 {
                    match accepts_seq::<T>(b.skip(n as int), x) {
                        None => {},
                        Some(m) => {
                            accepts_seq_prefix::<T>(b.skip(n as int), x, s);
                            let tot = n + m;
                            compact_dec_prefix(b, b.skip(n as int).take(m as int) + s);
                            assert(b.take(n as int) + (b.skip(n as int).take(m as int) + s) =~= b.take(tot as int) + s);
                            assert((b.take(tot as int) + s).skip(n as int) =~= b.skip(n as int).take(m as int) + s);
                        }
                    }
                }
            }
        }
    }
    proof fn law_roundtrip(v: &Self, s: Seq<u8>) {
        le_lemmas::pow256_values();
        compact_lemmas::pow256_mono(4, 67);
        compact_roundtrip::compact_roundtrip(v@.len(), dec_seq(v@) + s);
        accepts_seq_roundtrip::<T>(v@, s);
        let c = compact(v@.len());
        assert((c + dec_seq(v@)) + s =~= c + (dec_seq(v@) + s));
        assert((c + (dec_seq(v@) + s)).skip(c.len() as int) =~= dec_seq(v@) + s);
    }
}
} // mod laws_vec
'''

COMPACT = '''
impl DecodeLaws for Compact<$T> {
    open spec fn dec_ok(v: &Self) -> bool { true }
    proof fn law_prefix(b: Seq<u8>, s: Seq<u8>) { compact_dec_prefix(b, s); }
    proof fn law_roundtrip(v: &Self, s: Seq<u8>) {
        le_lemmas::pow256_values();
        compact_lemmas::pow256_mono($N, 67);
        compact_roundtrip::compact_roundtrip(v.0 as nat, s);
    }
}
impl CodecLaws for Compact<$T> { proof fn law_coherent(v: &Self) {} }
'''

LETTERS = [c + '0' for c in 'ABCDEFGHIJKLMNOPQR']


def tuple_laws(k):
    L = LETTERS[18 - k:]
    ty = '(%s%s)' % (', '.join(L), ',' if k == 1 else '')
    out = ['pub mod laws_tuple_%d {' % k, 'use super::*;', 'broadcast use auto::psc_auto;', '//@module laws_tuple_%d props=C02,C14' % k,
           'impl<%s> DecodeLaws for %s {' % (', '.join('%s: DecodeLaws' % x for x in L), ty),
           '    open spec fn dec_ok(v: &Self) -> bool { %s }' % ' && '.join('%s::dec_ok(&v.%d)' % (L[i], i) for i in range(k))]

    def sk(i):
        return 'b' + ''.join('.skip(n%d as int)' % j for j in range(i))
    # law_prefix: peel components; the tail handed to component i is (rest of the accepted part) + s
    lines = ['    proof fn law_prefix(b: Seq<u8>, s: Seq<u8>) {', '        match Self::accepts(b) { None => {}, Some(n) => {']
    for i in range(k):
        lines.append('            %s::law_bound(%s); let n%d = %s::accepts(%s)->0;' % (L[i], sk(i), i, L[i], sk(i)))
    # tails
    for i in range(k):
        rest = ' + '.join('n%d' % j for j in range(i + 1, k)) or '0'
        lines.append('            let t%d = %s.take((%s) as int) + s;' % (i, sk(i + 1), rest))
        lines.append('            %s::law_prefix(%s, t%d);' % (L[i], sk(i), i))
    lines.append('            let c = b.take(n as int) + s;')
    for i in range(k):
        ci = 'c' + ''.join('.skip(n%d as int)' % j for j in range(i))
        lines.append('            assert(%s =~= %s.take(n%d as int) + t%d);' % (ci, sk(i), i, i))
    lines.append('        } }')
    lines.append('    }')
    out += lines
    # law_roundtrip
    lines = ['    proof fn law_roundtrip(v: &Self, s: Seq<u8>) {']
    for i in range(k):
        tail = ' + '.join(['%s::dec_bytes(&v.%d)' % (L[j], j) for j in range(i + 1, k)] + ['s'])
        tail_r = tail
        # right nested tail
        parts = ['%s::dec_bytes(&v.%d)' % (L[j], j) for j in range(i + 1, k)] + ['s']

        def rn(xs):
            return xs[0] if len(xs) == 1 else '%s + (%s)' % (xs[0], rn(xs[1:]))
        lines.append('        let t%d = %s;' % (i, rn(parts)))
        lines.append('        %s::law_roundtrip(&v.%d, t%d);' % (L[i], i, i))
    lines.append('        let c = Self::dec_bytes(v) + s;')
    for i in range(k):
        ci = 'c' + ''.join('.skip(%s::dec_bytes(&v.%d).len() as int)' % (L[j], j) for j in range(i))
        lines.append('        assert(%s =~= %s::dec_bytes(&v.%d) + t%d);' % (ci, L[i], i, i))
    lines.append('    }')
    out += lines
    out.append('}')
    out.append('impl<%s> CodecLaws for %s {' % (', '.join('%s: CodecLaws' % x for x in L), ty))
    out.append('    proof fn law_coherent(v: &Self) { %s }' % ' '.join('%s::law_coherent(&v.%d);' % (L[i], i) for i in range(k)))
    out.append('}')
    out.append('} // mod laws_tuple_%d' % k)
    return '\n'.join(out)


def template(src, flags):
    out = [HEAD]
    for t in ['u8', 'u16', 'u32', 'u64', 'u128', 'i8', 'i16', 'i32', 'i64', 'i128']:
        out.append(INT.replace('$T', t))
    comp = ''.join(COMPACT.replace('$T', t).replace('$N', str(n)) for t, n in (('u8', 1), ('u16', 2), ('u32', 4), ('u64', 8), ('u128', 16)))
    out.append(REST.replace('$COMPACT', comp))
    for k in ([1, 2, 3, 4] if 'all_tuples' not in flags else list(range(1, 9))):
        out.append(tuple_laws(k))
    return '\n'.join(out)
