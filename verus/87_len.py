"""C18: DecodeLength impls (impl_len! expansions + tuple delegation), enumerated from the expansion (marker-driven),
plus the compact round-trip lemma that makes `len(encode(c)) == c.len()` a consequence of C01."""
import re

HEAD = '''
// ===== DecodeLength (generated from verus/87_len.py) =====
use std::collections::{BTreeMap, BTreeSet, BinaryHeap, LinkedList, VecDeque};

// opaque external types (no spec beyond existence)
#[verifier::reject_recursive_types(A)]
#[verifier::reject_recursive_types(T)]
#[verifier::external_type_specification]
#[verifier::external_body]
pub struct ExBinaryHeap<T, A>(std::collections::BinaryHeap<T, A>) where A: std::alloc::Allocator;
#[verifier::reject_recursive_types(A)]
#[verifier::reject_recursive_types(T)]
#[verifier::external_type_specification]
#[verifier::external_body]
pub struct ExLinkedList<T, A>(std::collections::LinkedList<T, A>) where A: std::alloc::Allocator;

pub mod compact_roundtrip {
use vstd::prelude::*;
use super::*;
broadcast use auto::psc_auto;
//@module compact_roundtrip props=C02,C04,C14,C18
//@lemma compact.roundtrip props=C02,C04,C14,C18
/// decoding the canonical form of x, followed by anything, yields x and the length of the form (widths up to 67 bytes)
pub proof fn compact_roundtrip(x: nat, s: Seq<u8>)
    requires x < pow256(67)
    ensures compact_dec(compact(x) + s) == Some((x, compact(x).len())), compact(x).len() >= 1
{
    reveal(compact_dec);
    le_lemmas::pow256_values();
    let b = compact(x) + s;
    if x < 64 {
        assert(b[0] == (4 * x) as u8);
    } else if x < 16384 {
        let v = 4 * x + 1;
        assert(b.take(2) =~= le(v, 2));
        le_lemmas::from_le_le(v, 2);
        assert(le(v, 2)[0] == (v % 256) as u8);
        assert(b[0] == le(v, 2)[0]);
    } else if x < 1073741824 {
        let v = 4 * x + 2;
        assert(b.take(4) =~= le(v, 4));
        le_lemmas::from_le_le(v, 4);
        assert(le(v, 4)[0] == (v % 256) as u8);
        assert(b[0] == le(v, 4)[0]);
    } else {
        let k = big_len(x);
        compact_lemmas::nbytes_upper(x, 67);
        nbytes_bounds(x);
        if nbytes(x) < 4 { compact_lemmas::pow256_mono(nbytes(x), 4); }
        compact_lemmas::compact_big(x, k);
        assert(b[0] == (3 + (k - 4) * 4) as u8);
        assert(b.subrange(1, 1 + k as int) =~= le(x, k));
        le_lemmas::from_le_le(x, k);
        assert(x % pow256(k) == x) by (nonlinear_arith) requires x < pow256(k);
        assert((b[0] / 4) as nat + 4 == k);
        assert(b[0] % 4 == 3);
        if k == 4 { assert(pow256(3) <= x); }
    }
}
pub proof fn nbytes_bounds(x: nat)
    requires x > 0
    ensures pow256((nbytes(x) - 1) as nat) <= x < pow256(nbytes(x))
    decreases x
{
    if x / 256 > 0 {
        nbytes_bounds(x / 256);
        let p = pow256((nbytes(x / 256) - 1) as nat);
        assert(256 * p <= x) by (nonlinear_arith) requires p <= x / 256;
        let q = pow256(nbytes(x / 256));
        assert(x < 256 * q) by (nonlinear_arith) requires x / 256 < q;
    } else {
        assert(nbytes(x / 256) == 0);
        assert(pow256(0) == 1);
        assert(pow256(1) == 256);
    }
}
} // mod compact_roundtrip

pub trait DecodeLength {
    //@fn trait.DecodeLength.len :: codec | pub trait DecodeLength | len
    //@ ret r
    //@ decl
    //@+ ensures match r {
    //@+     Ok(n) => compact_dec(self_encoded@) matches Some((x, _k)) && x == n && x < 4294967296,
    //@+     Err(_) => compact_accepts(self_encoded@, 4) is None,
    //@+ },
}
'''

COLL = '''
pub mod len_$M {
use super::*;
broadcast use auto::psc_auto;
//@module len_$M props=C18
impl$G DecodeLength for $T {
    //@fn len.$M :: codec | $SRC | len
    //@ at start
    //@+ proof { le_lemmas::pow256_values(); }
}
} // mod len_$M
'''

COLLS = {
    'impl<T>DecodeLength for Vec<T>': ('vec', '<T>', 'Vec<T>'),
    'impl<T>DecodeLength for BTreeSet<T>': ('btreeset', '<T>', 'BTreeSet<T>'),
    'impl<K,V>DecodeLength for BTreeMap<K,V>': ('btreemap', '<K, V>', 'BTreeMap<K, V>'),
    'impl<T>DecodeLength for VecDeque<T>': ('vecdeque', '<T>', 'VecDeque<T>'),
    'impl<T>DecodeLength for BinaryHeap<T>': ('binaryheap', '<T>', 'BinaryHeap<T>'),
    'impl<T>DecodeLength for LinkedList<T>': ('linkedlist', '<T>', 'LinkedList<T>'),
}
LETTERS = [c + '0' for c in 'ABCDEFGHIJKLMNOPQR']


def tuple_hdr(k):
    L = LETTERS[18 - k:]
    return 'impl<%s>DecodeLength for(%s%s)' % (','.join([L[0] + ':DecodeLength'] + L[1:]), ','.join(L), ',' if k == 1 else '')


def template(src, flags):
    from extract import LostAnchor
    found = [it.header for it in src.impls(r'DecodeLength for')]
    tuples = {tuple_hdr(k): k for k in range(1, 19)}
    unknown = [h for h in found if h not in COLLS and h not in tuples]
    if unknown:
        raise LostAnchor('DecodeLength impl(s) without a registered obligation: %s' % unknown)
    out = [HEAD]
    arities = list(range(1, 19)) if 'all_tuples' in flags else [1, 2, 3]
    for h in found:
        if h in COLLS:
            m, g, t = COLLS[h]
            out.append(COLL.replace('$M', m).replace('$G', g).replace('$T', t).replace('$SRC', h))
        else:
            k = tuples[h]
            if k not in arities:
                continue
            L = LETTERS[18 - k:]
            g = '<%s>' % ', '.join([L[0] + ': DecodeLength'] + L[1:])
            t = '(%s%s)' % (', '.join(L), ',' if k == 1 else '')
            out.append(COLL.replace('$M', 'tuple_%d' % k).replace('$G', g).replace('$T', t).replace('codec | $SRC', 'codec::inner_tuple_impl | ' + h))
    return '\n'.join(out)
