"""C05 / C13(derived): Verus obligations for the derive expansions of the seeded family (tools/family.py).

Everything in the spec part (spec_enc / accepts / dec_bytes / need_depth) is generated from the *definition*;
the function bodies are the real output of the derive macros of /repo (source `@family`).
"""
import re
import sys
import os

sys.path.insert(0, os.path.join(os.path.dirname(os.path.abspath(__file__)), '..', 'tools'))
import family  # noqa: E402

W = family.INTS


def rnest(xs):
    if not xs:
        return 'Seq::<u8>::empty()'
    if len(xs) == 1:
        return xs[0]
    return '%s + (%s)' % (xs[0], rnest(xs[1:]))


def lnest(xs):
    r = xs[0]
    for x in xs[1:]:
        r = '(%s + %s)' % (r, x)
    return r


def is_compact(f):
    return f['attr'] in ('compact', 'encoded_as')


def enc_term(f, acc):
    """spec encoding of field f whose value is the spec expression `acc`"""
    if is_compact(f):
        return 'compact((%s) as nat)' % acc
    return '(%s).spec_enc()' % acc


def encok_term(f, acc):
    return 'true' if is_compact(f) else '(%s).enc_ok()' % acc


def dec_term(f, acc):
    if is_compact(f):
        return 'compact((%s) as nat)' % acc
    return '<%s as Decode>::dec_bytes(&(%s))' % (f['ty'], acc)


def acc_call(f, b):
    if is_compact(f):
        return 'compact_accepts(%s, %d)' % (b, W[f['ty']])
    return '<%s as Decode>::accepts(%s)' % (f['ty'], b)


def nd_call(f, b):
    if is_compact(f):
        return '0nat'
    return '<%s as Decode>::need_depth(%s)' % (f['ty'], b)


def nm_call(f, b):
    if is_compact(f):
        return 'None::<nat>'
    return '<%s as Decode>::need_mem(%s)' % (f['ty'], b)


def law_call(f, b):
    if is_compact(f):
        return 'compact_dec_lemmas::accepts_bound(%s, %d);' % (b, W[f['ty']])
    return '<%s as Decode>::law_bound(%s);' % (f['ty'], b)


def chain(fields, base, plus0):
    """accepts / need_depth / law for a sequence of non-skipped fields starting at spec byte string `base`.
    plus0: number of bytes already consumed before `base` (spec nat expression or '0')."""
    k = len(fields)

    def sk(i):
        return base + ''.join('.skip(n%d as int)' % j for j in range(i))

    def acc(i):
        if i == k:
            tot = ' + '.join(([plus0] if plus0 != '0' else []) + ['n%d' % j for j in range(k)]) or '0nat'
            return 'Some((%s) as nat)' % tot
        return 'match %s { None => None, Some(n%d) => %s }' % (acc_call(fields[i], sk(i)), i, acc(i + 1))

    def nd(i):
        if k == 0:
            return '0nat'
        cur = nd_call(fields[i], sk(i))
        if i == k - 1:
            return cur
        return 'match %s { None => %s, Some(n%d) => max_nat(%s, %s) }' % (acc_call(fields[i], sk(i)), cur, i, cur, nd(i + 1))

    def nmm(i):
        if k == 0:
            return 'None::<nat>'
        cur = nm_call(fields[i], sk(i))
        if i == k - 1:
            return cur
        return 'match %s { None => %s, Some(n%d) => mem_add(%s, %s) }' % (acc_call(fields[i], sk(i)), cur, i, cur, nmm(i + 1))

    def law(i):
        if i == k:
            return ''
        return '%s match %s { None => {}, Some(n%d) => { %s } }' % (law_call(fields[i], sk(i)), acc_call(fields[i], sk(i)), i, law(i + 1))
    return acc(0), nd(0), law(0), nmm(0)


def gparams(d, bound):
    if not d['generics']:
        return '', ''
    return '<%s>' % ', '.join('%s: %s' % (g, bound) for g in d['generics']), '<%s>' % ', '.join(d['generics'])


def type_def(d):
    g = ('<%s>' % ', '.join(d['generics'])) if d['generics'] else ''
    if d['kind'] == 'struct':
        if d['shape'] == 'unit':
            return 'pub struct %s;' % d['name']
        if d['shape'] == 'named':
            return 'pub struct %s%s { %s }' % (d['name'], g, ', '.join('pub %s: %s' % (f['name'], f['ty']) for f in d['fields']))
        return 'pub struct %s%s(%s);' % (d['name'], g, ', '.join('pub %s' % f['ty'] for f in d['fields']))
    vs = []
    for v in d['variants']:
        if v['shape'] == 'unit':
            vs.append(v['name'])
        elif v['shape'] == 'named':
            vs.append('%s { %s }' % (v['name'], ', '.join('%s: %s' % (f['name'], f['ty']) for f in v['fields'])))
        else:
            vs.append('%s(%s)' % (v['name'], ', '.join(f['ty'] for f in v['fields'])))
    return 'pub enum %s%s { %s }' % (d['name'], g, ', '.join(vs))


SUBS_ENC = [
    "    //@ subre `\\b__CodecOutputEdqy\\b` `W` R2 ?",
    "    //@ subre `<<(\\w+)\\s+as\\s+HasCompact>::Type\\s+as\\s+EncodeAsRef<'_,\\s*\\w+>>::RefType::from\\(` `CompactRef::<\\1>::from(` R6 ?",
    "    //@ subre `<Compact<(\\w+)>\\s+as\\s+EncodeAsRef<'_,\\s*\\w+>>::RefType::from\\(` `CompactRef::<\\1>::from(` R6 ?",
]
SUBS_DEC = [
    "    //@ subre `\\b__CodecInputEdqy\\b` `I` R2 ?",
    "    //@ subre `<<(\\w+)\\s+as\\s+HasCompact>::Type\\s+as\\s+Decode>::decode\\(` `<Compact<\\1> as Decode>::decode(` R6 ?",
]


def find_impl(src, trait, name):
    hits = [it for it in src.impls(r'(^|[\s:>])%s for %s($|[<\s])' % (trait, name))]
    if len(hits) != 1:
        from extract import LostAnchor
        raise LostAnchor('%d derive impls of %s for %s in the family expansion' % (len(hits), trait, name))
    return hits[0]


def pat_for(d, v, binder='a'):
    """spec-level pattern for variant v and the accessor names of its fields"""
    names = ['%s%d' % (binder, i) for i in range(len(v['fields']))]
    if v['shape'] == 'unit':
        return '%s::%s' % (d['name'], v['name']), names
    if v['shape'] == 'named':
        return '%s::%s { %s }' % (d['name'], v['name'], ', '.join('%s: %s' % (f['name'], n) for f, n in zip(v['fields'], names))), names
    return '%s::%s(%s)' % (d['name'], v['name'], ', '.join(names)), names


def cat_lemma(k):
    es = ['e%d' % i for i in range(k)]
    return ('pub proof fn cat_%d(o: Seq<u8>, %s)\n    ensures %s == o + (%s)\n{ assert(%s =~= o + (%s)); }'
            % (k, ', '.join('%s: Seq<u8>' % e for e in es), lnest(['o'] + es), rnest(es), lnest(['o'] + es), rnest(es)))


# the proof of a derived decoder needs the field types' *contracts* only: hiding the definitions behind the collection and
# compact spec functions keeps z3 from unfolding them (rlimit 400 -> 5 on R6E of family seed 6; compact u128 fields)
def hide_dec(fields):
    """hide only what the decoder can reach (hiding an unreachable function trips Verus: undeclared fuel variable)"""
    h = []
    if any('Vec<' in f['ty'] for f in fields):
        h += ['seq_decode_vec::vec_accepts', 'seq_decode_vec::vec_need_depth', 'seq_decode_vec::vec_need_mem', 'seq_spec::dec_seq']
    if any(is_compact(f) or f.get('attr') == 'encoded_as' for f in fields):
        h += ['spec::compact_accepts', 'spec::compact', 'spec::nbytes', 'spec::big_len']
    return ' '.join('hide(%s);' % x for x in h)


def dec_hint(k, tag=None):
    """reassociation needed by the decode postcondition.  For enums the first operand is the variant's tag literal:
    a pattern that generic is self-feeding (its right-hand side creates `x + r` terms that match it again whenever x
    unfolds to a concatenation: 12 000 instantiations on R1E of family seed 1), the tagged one is not."""
    if tag is None:
        ds = ['d%d' % i for i in range(k)]
        qs = ds
    else:
        ds = ['seq![%du8]' % tag] + ['d%d' % i for i in range(1, k)]
        qs = ds[1:]
    return ('assert forall|%s, r: Seq<u8>| #[trigger] ((%s) + r) == %s by { assert(((%s) + r) =~= %s); }'
            % (', '.join('%s: Seq<u8>' % x for x in qs), rnest(ds), rnest(ds + ['r']), rnest(ds), rnest(ds + ['r'])))


def dec_hint_struct(ty, ns, vacc):
    """dec_bytes(v) ++ r in right-nested form, oriented by the value: the trigger needs an application of this
    type's dec_bytes, so it fires for the returned value only (the sequence-generic reassociation was self-feeding)"""
    ds = [dec_term(f, vacc(f)) for f in ns]
    return ('assert forall|v: %s, r: Seq<u8>| #[trigger] (<%s as Decode>::dec_bytes(&v) + r) == %s by { assert(((%s) + r) =~= %s); }'
            % (ty, ty, rnest(ds + ['r']), rnest(ds), rnest(ds + ['r'])))


def dec_hint_enum(d, ty, idx):
    arms, proofs = [], []
    for v in d['variants']:
        pat, names = pat_for(d, v)
        if v['skip']:
            arms.append('%s => r' % pat)
            proofs.append('%s => { assert(Seq::<u8>::empty() + r =~= r); }' % pat)
        else:
            ds = ['seq![%du8]' % idx[v['name']]] + [dec_term(f, x) for f, x in zip(v['fields'], names)]
            arms.append('%s => %s' % (pat, rnest(ds + ['r'])))
            proofs.append('%s => { assert(((%s) + r) =~= %s); }' % (pat, rnest(ds), rnest(ds + ['r'])))
    return ('assert forall|v: %s, r: Seq<u8>| #[trigger] (<%s as Decode>::dec_bytes(&v) + r) == (match v { %s }) by { match v { %s } }'
            % (ty, ty, ', '.join(arms), ', '.join(proofs)))


def struct_module(d, src, out, props):
    name = d['name']
    ns = [f for f in d['fields'] if f['attr'] != 'skip']
    k = len(ns)
    gE, gu = gparams(d, 'Encode')
    gD, _ = gparams(d, 'Decode')
    ty = name + gu

    def acc(f):
        return 'self.%s' % f['name']

    def vacc(f):
        return 'v.%s' % f['name']
    enc = find_impl(src, 'Encode', name)
    fns = [c.name for c in enc.children if c.kind == 'fn']
    out.append('pub mod lem { use vstd::prelude::*;')
    if k >= 2:
        out.append(cat_lemma(k))
    out.append('} // mod lem')
    out.append('impl%s Encode for %s {' % (gE, ty))
    out.append('    open spec fn spec_enc(&self) -> Seq<u8> { %s }' % rnest([enc_term(f, acc(f)) for f in ns]))
    out.append('    open spec fn enc_ok(&self) -> bool { %s }' % (' && '.join(encok_term(f, acc(f)) for f in ns) or 'true'))
    out.append('    #[verifier::external_body]\n    fn size_hint(&self) -> usize { 0 }')
    for fn in fns:
        if fn == 'size_hint':
            continue
        out.append('    //@fn fam.%s.%s :: @family | %s | %s' % (name, fn, enc.header, fn))
        out += SUBS_ENC
        if fn == 'using_encoded':
            out.append("    //@ subre `\\b__CodecOutputReturn\\b` `R` R2")
            out.append("    //@ subre `\\b__CodecUsingEncodedCallback\\b` `F` R2")
            out.append("    //@ subre `::core::ops::FnOnce\\(&\\[::core::primitive::u8\\]\\)` `FnOnce(&[u8])` R10")
        if fn == 'encode':
            out.append("    //@ subre `Vec<::core::primitive::u8>` `Vec<u8>` R10")
        if fn == 'encode_to':
            if k == 0:
                out.append('    //@ at start\n    //@+ proof { broadcast use sl::concat_empty_r; }')
            elif k >= 2:
                out.append('    //@ at end\n    //@+ proof { lem::cat_%d(old(__codec_dest_edqy).out(), %s); }' % (k, ', '.join(enc_term(f, acc(f)) for f in ns)))
    out.append('}')
    if 'Decode' in d['derives']:
        dec = find_impl(src, 'Decode', name)
        a, nd, law, nmem = chain(ns, 'b', '0')
        out.append('impl%s Decode for %s {' % (gD, ty))
        out.append('    open spec fn accepts(b: Seq<u8>) -> Option<nat> { %s }' % a)
        out.append('    open spec fn dec_bytes(v: &Self) -> Seq<u8> { %s }' % rnest([dec_term(f, vacc(f)) for f in ns]))
        out.append('    open spec fn need_depth(b: Seq<u8>) -> nat { %s }' % nd)
        out.append('    open spec fn need_mem(b: Seq<u8>) -> Option<nat> { %s }' % nmem)
        out.append('    proof fn law_bound(b: Seq<u8>) { %s }' % law)
        out.append('    //@fn fam.%s.decode :: @family | %s | decode' % (name, dec.header))
        out += SUBS_DEC
        skipped = [f for f in d['fields'] if f['attr'] == 'skip']
        if skipped:
            out.append('    //@ ret r')
            out.append('    //@+ ensures r matches Ok(v) ==> (%s),' % ' && '.join('v.%s == %s' % (f['name'], 'false' if f['ty'] == 'bool' else '0') for f in skipped))
        hints = []
        if k == 0:
            hints.append('broadcast use sl::concat_empty_l;')
        if k >= 2:
            hints.append(dec_hint_struct(ty, ns, vacc))
        if any(is_compact(f) for f in ns):
            hints.append('le_lemmas::pow256_values();')
        hd = hide_dec(ns)
        if hd or hints:
            out.append('    //@ at start' + ('\n    //@+ ' + hd if hd else '') + (('\n    //@+ proof { %s }' % ' '.join(hints)) if hints else ''))
        out.append('}')
    if 'MaxEncodedLen' in d['derives']:
        mel_module(d, src, out, [(None, ns)], enum=False)


def mel_assert(f, acc, mv):
    t = ('Compact<%s>' % f['ty']) if is_compact(f) else f['ty']
    if is_compact(f):
        return 'assert(Compact::<%s>(%s).spec_enc().len() <= %s); assert(%s.len() <= %s);' % (f['ty'], acc, mv[t], enc_term(f, acc), mv[t])
    return 'assert(%s.len() <= %s);' % (enc_term(f, acc), mv[t])


def mel_module(d, src, out, groups, enum):
    """derived MaxEncodedLen: hint = the bound that follows from the *definition* (compact fields: Compact<T>'s bound)."""
    name = d['name']
    gM, gu = gparams(d, 'MaxEncodedLen')
    ty = name + gu
    mel = find_impl(src, 'MaxEncodedLen', name)
    out.append('pub mod mel {')
    out.append('use super::*;')
    out.append('broadcast use auto::psc_min;')
    out.append('//@module mel props=C13')
    out.append('impl%s MaxEncodedLen for %s {' % (gM, ty))
    out.append('    //@fn fam.%s.max_encoded_len :: @family | %s | max_encoded_len' % (name, mel.header))
    out.append("    //@ subre `::core::primitive::usize` `usize` R10")
    out.append("    //@ subre `<<(\\w+)\\s+as\\s+HasCompact>::Type\\s+as\\s+MaxEncodedLen>` `<Compact<\\1> as MaxEncodedLen>` R6 ?")
    # distinct field types that contribute
    tys = []
    for _, fs in groups:
        for f in fs:
            t = ('Compact<%s>' % f['ty']) if is_compact(f) else f['ty']
            if t not in tys:
                tys.append(t)
    mv = {t: 'm%d' % i for i, t in enumerate(tys)}

    def bound(fs):
        return ' + '.join(mv[('Compact<%s>' % f['ty']) if is_compact(f) else f['ty']] for f in fs) or '0'
    if enum:
        total = '1 + ' + ' '.join([]) + mx([bound(fs) for _, fs in groups])
    else:
        total = bound(groups[0][1])
    hyp = ' && '.join('#[trigger] enc_bounded::<%s>(%s)' % (t, mv[t]) for t in tys)
    qv = ', '.join('%s: nat' % mv[t] for t in tys)
    inst = []
    for t in tys:
        inst.append('')
    body_asserts = []
    if enum:
        arms = []
        for v, fs in groups:
            pat, names = pat_for(d, v)
            nsf = [(f, n) for f, n in zip(v['fields'], names) if f['attr'] != 'skip']
            arms.append('%s => { %s }' % (pat, ' '.join(mel_assert(f, n, mv) for f, n in nsf)))
        body_asserts.append('match v { %s _ => {} }' % ', '.join(arms + ['']) if arms else '')
    else:
        for f in groups[0][1]:
            body_asserts.append(mel_assert(f, 'v.' + f['name'], mv))
    if tys:
        hint = ('assert forall|%s| %s implies enc_bounded::<%s>((%s) as nat) by { assert forall|v: %s| (#[trigger] v.spec_enc()).len() <= %s by { %s } }'
                % (qv, hyp, ty, total, ty, total, ' '.join(compact_inst(groups, mv) + body_asserts)))
    else:
        hint = 'assert(enc_bounded::<%s>((%s) as nat));' % (ty, total)
    out.append('    //@ at start\n    //@+ proof { %s }' % hint)
    out.append('}')
    out.append('} // mod mel')


def compact_inst(groups, mv):
    # for compact fields the field value is a plain integer: instantiate enc_bounded::<Compact<T>> at Compact(value)
    return []


def mx(xs):
    if not xs:
        return '0'
    r = xs[0]
    for x in xs[1:]:
        r = 'max_nat((%s) as nat, (%s) as nat)' % (r, x)
    return r


def enum_module(d, src, out, props):
    name = d['name']
    gE, gu = gparams(d, 'Encode')
    gD, _ = gparams(d, 'Decode')
    ty = name + gu
    idx = family.variant_indices(d)
    live = [v for v in d['variants'] if not v['skip']]
    enc = find_impl(src, 'Encode', name)
    fns = [c.name for c in enc.children if c.kind == 'fn']
    arities = sorted(set(1 + len(v['fields']) for v in live))
    out.append('pub mod lem { use vstd::prelude::*;')
    for k in arities:
        if k >= 2:
            out.append(cat_lemma(k))
    out.append('} // mod lem')

    def arms(fn_live, fn_skip):
        a = []
        for v in d['variants']:
            pat, names = pat_for(d, v)
            a.append('%s => %s' % (pat, fn_skip(v, names) if v['skip'] else fn_live(v, names)))
        return ', '.join(a)
    if d['variants']:
        spec_enc = 'match *self { %s }' % arms(lambda v, n: rnest(['seq![%du8]' % idx[v['name']]] + [enc_term(f, x) for f, x in zip(v['fields'], n)]), lambda v, n: 'Seq::<u8>::empty()')
        enc_ok = 'match *self { %s }' % arms(lambda v, n: ' && '.join(encok_term(f, x) for f, x in zip(v['fields'], n)) or 'true', lambda v, n: 'true')
    else:
        spec_enc, enc_ok = 'Seq::<u8>::empty()', 'true'
    out.append('impl%s Encode for %s {' % (gE, ty))
    out.append('    open spec fn spec_enc(&self) -> Seq<u8> { %s }' % spec_enc)
    out.append('    open spec fn enc_ok(&self) -> bool { %s }' % enc_ok)
    out.append('    #[verifier::external_body]\n    fn size_hint(&self) -> usize { 0 }')
    for fn in fns:
        if fn == 'size_hint':
            continue
        out.append('    //@fn fam.%s.%s :: @family | %s | %s' % (name, fn, enc.header, fn))
        out += SUBS_ENC
        if fn == 'encode_to':
            lem_arms = []
            for v in d['variants']:
                pat, names = pat_for(d, v)
                if v['skip'] or len(v['fields']) == 0:
                    lem_arms.append('%s => {}' % pat)
                else:
                    lem_arms.append('%s => { lem::cat_%d(old(__codec_dest_edqy).out(), seq![%du8], %s); }' % (
                        pat, 1 + len(v['fields']), idx[v['name']], ', '.join(enc_term(f, '*' + x) for f, x in zip(v['fields'], names))))
            out.append('    //@ at start\n    //@+ proof { broadcast use sl::concat_empty_r, sl::push_is_concat; }')
            if d['variants']:
                out.append('    //@ at end\n    //@+ proof { match self { %s } }' % ', '.join(lem_arms))
    out.append('}')
    if 'Decode' in d['derives']:
        dec = find_impl(src, 'Decode', name)
        accs, nds, laws, decs, nms = [], [], [], [], []
        for v in live:
            a, nd, law, nmem = chain(v['fields'], 'b.skip(1)', '1')
            accs.append('if b[0] == %du8 { %s }' % (idx[v['name']], a))
            nds.append('if b[0] == %du8 { %s }' % (idx[v['name']], nd))
            nms.append('if b[0] == %du8 { %s }' % (idx[v['name']], nmem))
            laws.append('if b[0] == %du8 { %s }' % (idx[v['name']], law))
        accepts = 'if b.len() == 0 { None } else ' + ' else '.join(accs + ['{ None }'])
        need = 'if b.len() == 0 { 0 } else ' + ' else '.join(nds + ['{ 0 }'])
        needm = 'if b.len() == 0 { None } else ' + ' else '.join(nms + ['{ None }'])
        lawb = 'if b.len() > 0 { ' + ' else '.join(laws + ['{ }']) + ' }'
        if d['variants']:
            dec_bytes = 'match *v { %s }' % arms(lambda v, n: rnest(['seq![%du8]' % idx[v['name']]] + [dec_term(f, x) for f, x in zip(v['fields'], n)]), lambda v, n: 'Seq::<u8>::empty()')
        else:
            dec_bytes = 'Seq::<u8>::empty()'
        out.append('impl%s Decode for %s {' % (gD, ty))
        out.append('    open spec fn accepts(b: Seq<u8>) -> Option<nat> { %s }' % accepts)
        out.append('    open spec fn dec_bytes(v: &Self) -> Seq<u8> { %s }' % dec_bytes)
        out.append('    open spec fn need_depth(b: Seq<u8>) -> nat { %s }' % need)
        out.append('    open spec fn need_mem(b: Seq<u8>) -> Option<nat> { %s }' % needm)
        out.append('    proof fn law_bound(b: Seq<u8>) { %s }' % lawb)
        out.append('    //@fn fam.%s.decode :: @family | %s | decode' % (name, dec.header))
        out += SUBS_DEC
        hints = ['assert forall|s: Seq<u8>| s.len() >= 1 implies s =~= #[trigger] (seq![s[0]] + s.skip(1)) by {}', 'le_lemmas::pow256_values();']
        if any(len(v['fields']) >= 1 for v in live):
            hints.append(dec_hint_enum(d, ty, idx))
        # the proof of a derived decoder needs the field types' *contracts* only: hiding the definitions behind the
        # collection types' spec functions keeps z3 from unfolding them (rlimit 400 -> 5 on R6E of family seed 6)
        hide = hide_dec([f for v in live for f in v['fields']])
        out.append('    //@ at start' + ('\n    //@+ ' + hide if hide else '') + '\n    //@+ proof { %s }' % ' '.join(h if h.endswith(';') or h.endswith('}') else h + ';' for h in hints))
        out.append('}')
    if 'MaxEncodedLen' in d['derives']:
        mel_module(d, src, out, [(v, [f for f in v['fields']]) for v in live], enum=True)


def template(src, flags, g):
    defs = g.extra.get('family_defs')
    if not defs:
        return '// (family not built for this run)\n'
    fsrc = g.sources['family']
    out = ['// ===== derive family (C05): %d definitions; bodies are the real derive output (source @family) =====' % len(defs)]
    wf = []
    for d in defs:
        enc = find_impl(fsrc, 'Encode', d['name'])
        fns = [c.name for c in enc.children if c.kind == 'fn']
        overrides = [f for f in fns if f in ('encode_to', 'using_encoded', 'encode')]
        uninhabited = d['kind'] == 'enum' and not d['variants']
        wf.append({'id': 'wf.encode_defaults.%s' % d['name'], 'impl': enc.header, 'overrides': overrides, 'ok': bool(overrides) or uninhabited,
                   'definition': family.def_src(d), 'note': 'uninhabited type: no value can be encoded' if uninhabited else ''})
        if uninhabited:
            out.append('// %s: uninhabited enum (no variants): every claim about its values is vacuous; Verus rejects empty datatypes, no text generated.' % d['name'])
            continue
        if not overrides:
            out.append('// %s: derive emitted an Encode impl overriding none of encode_to/using_encoded/encode: the three trait defaults\n'
                       '// are mutually recursive -> obligation wf.encode_defaults.%s FAILS (reported by the driver); no Verus text generated.' % (d['name'], d['name']))
            continue
        # derived encoders/decoders are also instances of the wire-format (C01), language (C03), entry-point (C07) and limit (C11, C12) properties
        props = 'C05,C01,C03,C07,C11,C12'
        out.append('pub mod fam_%s {' % d['name'])
        out.append('use super::*;')
        out.append('broadcast use auto::psc_min;')
        out.append('//@module fam_%s props=%s' % (d['name'], props))
        out.append('// definition: ' + family.def_src(d).replace('\n', ' '))
        out.append(type_def(d))
        if d['kind'] == 'struct':
            struct_module(d, fsrc, out, props)
        else:
            enum_module(d, fsrc, out, props)
        out.append('} // mod fam_%s' % d['name'])
        out.append('')
    g.meta['wf_obligations'] = wf
    g.meta['family_defs'] = defs
    return '\n'.join(out)
