"""Compact integers: CompactRef encoders, CompactLen, Compact<T> forwarders (R5 instances), decoders, PrefixInput."""

HEAD = r'''
// ===== compact integers (generated from verus/50_compact.py) =====
pub mod compact_lemmas {
use vstd::prelude::*;
use super::spec::*;
use super::le_lemmas::*;

pub proof fn pow256_mono(a: nat, b: nat)
    requires a <= b
    ensures pow256(a) <= pow256(b)
    decreases b
{
    if a < b {
        pow256_mono(a, (b - 1) as nat);
        pow256_pos((b - 1) as nat);
    }
}

pub proof fn nbytes_upper(x: nat, k: nat)
    requires x < pow256(k)
    ensures nbytes(x) <= k
    decreases k
{
    if x != 0 {
        if k == 0 {
        } else {
            assert(x / 256 < pow256((k - 1) as nat)) by (nonlinear_arith)
                requires x < 256 * pow256((k - 1) as nat);
            nbytes_upper(x / 256, (k - 1) as nat);
        }
    }
}

pub proof fn nbytes_lower(x: nat, k: nat)
    requires k >= 1, x >= pow256((k - 1) as nat)
    ensures nbytes(x) >= k
    decreases k
{
    pow256_pos((k - 1) as nat);
    if k > 1 {
        assert(x / 256 >= pow256((k - 2) as nat)) by (nonlinear_arith)
            requires x >= 256 * pow256((k - 2) as nat);
        nbytes_lower(x / 256, (k - 1) as nat);
    }
}

pub proof fn nbytes_exact(x: nat, k: nat)
    requires k >= 1, pow256((k - 1) as nat) <= x < pow256(k)
    ensures nbytes(x) == k
{
    nbytes_upper(x, k);
    nbytes_lower(x, k);
}

/// appending the next more significant byte
pub proof fn le_snoc(x: nat, i: nat)
    ensures le(x, i + 1) == le(x, i) + seq![((x / pow256(i)) % 256) as u8]
    decreases i
{
    if i == 0 {
        assert(pow256(0) == 1);
        assert(x / pow256(0) == x) by (nonlinear_arith) requires pow256(0) == 1;
        assert(le(x, 1) =~= le(x, 0) + seq![((x / pow256(0)) % 256) as u8]);
    } else {
        le_snoc(x / 256, (i - 1) as nat);
        pow256_pos((i - 1) as nat);
        assert((x / 256) / pow256((i - 1) as nat) == x / (256 * pow256((i - 1) as nat))) by (nonlinear_arith)
            requires pow256((i - 1) as nat) >= 1;
        le_len(x / 256, (i - 1) as nat);
        le_len(x / 256, i);
        if i == 1 {
            assert(le(x, 2) =~= le(x, 1) + seq![((x / pow256(1)) % 256) as u8]);
        } else {
            assert(le(x, i + 1) =~= le(x, i) + seq![((x / pow256(i)) % 256) as u8]);
        }
    }
}

pub proof fn div_pow256_step(x: nat, i: nat)
    ensures (x / pow256(i)) / 256 == x / pow256(i + 1)
{
    pow256_pos(i);
    assert((x / pow256(i)) / 256 == x / (256 * pow256(i))) by (nonlinear_arith)
        requires pow256(i) >= 1;
}

pub proof fn div_lt_zero(x: nat, k: nat)
    requires x < pow256(k)
    ensures x / pow256(k) == 0
{
    pow256_pos(k);
    assert(x / pow256(k) == 0) by (nonlinear_arith) requires x < pow256(k), pow256(k) >= 1;
}

/// the big-integer mode of `compact`, restated with the byte count the code computes
pub proof fn compact_big(x: nat, k: nat)
    requires 4 <= k <= 67, x >= 1073741824, x < pow256(k), (k > 4 ==> x >= pow256((k - 1) as nat))
    ensures compact(x) == seq![(3 + (k - 4) * 4) as u8] + le(x, k), big_len(x) == k
{
    pow256_values();
    if k == 4 {
        nbytes_upper(x, 4);
    } else {
        nbytes_exact(x, k);
    }
    assert(((big_len(x) - 4) * 4 + 3) % 256 == 3 + (k - 4) * 4);
}

} // mod compact_lemmas

pub mod compact_types {
use super::*;
//@item compact | struct | Compact
//@item compact | struct | CompactRef
//@item-pub compact | struct | PrefixInput
//@item compact | trait | CompactLen
//@item-pub compact | const | U8_OUT_OF_RANGE
//@item-pub compact | const | U16_OUT_OF_RANGE
//@item-pub compact | const | U32_OUT_OF_RANGE
//@item-pub compact | const | U64_OUT_OF_RANGE
//@item-pub compact | const | U128_OUT_OF_RANGE
impl vstd::std_specs::convert::FromSpecImpl<Compact<u8>> for u8 {
    open spec fn obeys_from_spec() -> bool { true }
    open spec fn from_spec(x: Compact<u8>) -> u8 { x.0 }
}
impl From<Compact<u8>> for u8 {
    //@fn compact.from.u8 :: compact | impl From<Compact<u8>>for u8 | from
    //@ ret r
    //@+ ensures r == x.0,
}
impl vstd::std_specs::convert::FromSpecImpl<Compact<u16>> for u16 {
    open spec fn obeys_from_spec() -> bool { true }
    open spec fn from_spec(x: Compact<u16>) -> u16 { x.0 }
}
impl From<Compact<u16>> for u16 {
    //@fn compact.from.u16 :: compact | impl From<Compact<u16>>for u16 | from
    //@ ret r
    //@+ ensures r == x.0,
}
impl vstd::std_specs::convert::FromSpecImpl<Compact<u32>> for u32 {
    open spec fn obeys_from_spec() -> bool { true }
    open spec fn from_spec(x: Compact<u32>) -> u32 { x.0 }
}
impl From<Compact<u32>> for u32 {
    //@fn compact.from.u32 :: compact | impl From<Compact<u32>>for u32 | from
    //@ ret r
    //@+ ensures r == x.0,
}
impl vstd::std_specs::convert::FromSpecImpl<Compact<u64>> for u64 {
    open spec fn obeys_from_spec() -> bool { true }
    open spec fn from_spec(x: Compact<u64>) -> u64 { x.0 }
}
impl From<Compact<u64>> for u64 {
    //@fn compact.from.u64 :: compact | impl From<Compact<u64>>for u64 | from
    //@ ret r
    //@+ ensures r == x.0,
}
impl vstd::std_specs::convert::FromSpecImpl<Compact<u128>> for u128 {
    open spec fn obeys_from_spec() -> bool { true }
    open spec fn from_spec(x: Compact<u128>) -> u128 { x.0 }
}
impl From<Compact<u128>> for u128 {
    //@fn compact.from.u128 :: compact | impl From<Compact<u128>>for u128 | from
    //@ ret r
    //@+ ensures r == x.0,
}
impl<'a, T> vstd::std_specs::convert::FromSpecImpl<&'a T> for CompactRef<'a, T> {
    open spec fn obeys_from_spec() -> bool { true }
    open spec fn from_spec(x: &'a T) -> CompactRef<'a, T> { CompactRef(x) }
}
impl<'a, T> From<&'a T> for CompactRef<'a, T> {
    //@fn compact.ref.from :: compact | impl<'a,T>From<&'a T>for CompactRef<'a,T> | from
    //@ ret r
    //@+ ensures r == CompactRef(x),
}
} // mod compact_types
pub use compact_types::*;

// R5: the blanket `impl<T: ?Sized + Encode> Encode for &T` (WrapperTypeEncode forwarder), instantiated for references
pub mod wrapper_ref {
use super::*;
broadcast use auto::psc_auto;
//@module wrapper_ref props=C01,C06,C07,C16
impl<'a, T: Encode + ?Sized> Encode for &'a T {
    open spec fn spec_enc(&self) -> Seq<u8> { (**self).spec_enc() }
    open spec fn enc_ok(&self) -> bool { (**self).enc_ok() }
    #[verifier::external_body]
    fn size_hint(&self) -> usize { 0 }
    //@fn wrapper.ref.using_encoded :: codec | impl<T,X>Encode for X where T:Encode + ?Sized,X:WrapperTypeEncode<Target = T> | using_encoded
    //@fn wrapper.ref.encode :: codec | impl<T,X>Encode for X where T:Encode + ?Sized,X:WrapperTypeEncode<Target = T> | encode
    //@fn wrapper.ref.encode_to :: codec | impl<T,X>Encode for X where T:Encode + ?Sized,X:WrapperTypeEncode<Target = T> | encode_to
}
} // mod wrapper_ref
'''

# bit-vector facts per width, asserted at function start (ghost only)
ENC = {
'u8': r'''
pub mod compact_enc_u8 {
use super::*;
broadcast use auto::psc_auto;
//@module compact_enc_u8 props=C01,C04,C07,C15
impl Encode for CompactRef<'_, u8> {
    open spec fn spec_enc(&self) -> Seq<u8> { compact(*self.0 as nat) }
    open spec fn enc_ok(&self) -> bool { true }
    #[verifier::external_body]
    fn size_hint(&self) -> usize { 0 }
    //@fn compact.u8.encode_to :: compact | impl Encode for CompactRef<'_,u8> | encode_to
    //@ sub `dest.push_byte(self.0 << 2)` `dest.push_byte((*self.0) << 2)` R15
    //@ at start
    //@+ proof {
    //@+     broadcast use sl::push_is_concat;
    //@+     let x = *self.0;
    //@+     assert(x <= 63 ==> (x << 2u8) as nat == 4 * (x as nat)) by (bit_vector);
    //@+     assert(((((x as u16) << 2u16) | 1u16)) as nat == 4 * (x as nat) + 1) by (bit_vector);
    //@+ }
    // ArrayVec (third-party, unsafe set_len): outside Verus; contract assumed, discharged by Kani (kani.compact_using_encoded_*)
    //@fn compact.u8.using_encoded :: compact | impl Encode for CompactRef<'_,u8> | using_encoded
    //@ external_body
}
impl CompactLen<u8> for Compact<u8> {
    //@fn compact.u8.compact_len :: compact | impl CompactLen<u8>for Compact<u8> | compact_len
    //@ ret r
    //@+ ensures r == compact(*val as nat).len(),
}
} // mod compact_enc_u8
''',
'u16': r'''
pub mod compact_enc_u16 {
use super::*;
broadcast use auto::psc_auto;
//@module compact_enc_u16 props=C01,C04,C07,C15
impl Encode for CompactRef<'_, u16> {
    open spec fn spec_enc(&self) -> Seq<u8> { compact(*self.0 as nat) }
    open spec fn enc_ok(&self) -> bool { true }
    #[verifier::external_body]
    fn size_hint(&self) -> usize { 0 }
    //@fn compact.u16.encode_to :: compact | impl Encode for CompactRef<'_,u16> | encode_to
    //@ at start
    //@+ proof {
    //@+     broadcast use sl::push_is_concat;
    //@+     let x = *self.0;
    //@+     assert(x <= 63 ==> ((x as u8) << 2u8) as nat == 4 * (x as nat)) by (bit_vector);
    //@+     assert(x <= 16383 ==> ((x << 2u16) | 1u16) as nat == 4 * (x as nat) + 1) by (bit_vector);
    //@+     assert((((x as u32) << 2u32) | 2u32) as nat == 4 * (x as nat) + 2) by (bit_vector);
    //@+ }
    //@fn compact.u16.using_encoded :: compact | impl Encode for CompactRef<'_,u16> | using_encoded
    //@ external_body
}
impl CompactLen<u16> for Compact<u16> {
    //@fn compact.u16.compact_len :: compact | impl CompactLen<u16>for Compact<u16> | compact_len
    //@ ret r
    //@+ ensures r == compact(*val as nat).len(),
}
} // mod compact_enc_u16
''',
'u32': r'''
pub mod compact_enc_u32 {
use super::*;
broadcast use auto::psc_auto;
//@module compact_enc_u32 props=C01,C04,C07,C15
impl Encode for CompactRef<'_, u32> {
    open spec fn spec_enc(&self) -> Seq<u8> { compact(*self.0 as nat) }
    open spec fn enc_ok(&self) -> bool { true }
    #[verifier::external_body]
    fn size_hint(&self) -> usize { 0 }
    //@fn compact.u32.encode_to :: compact | impl Encode for CompactRef<'_,u32> | encode_to
    //@ at start
    //@+ proof {
    //@+     broadcast use sl::push_is_concat;
    //@+     let x = *self.0;
    //@+     assert(x <= 63 ==> ((x as u8) << 2u8) as nat == 4 * (x as nat)) by (bit_vector);
    //@+     assert(x <= 16383 ==> (((x as u16) << 2u16) | 1u16) as nat == 4 * (x as nat) + 1) by (bit_vector);
    //@+     assert(x <= 1073741823 ==> ((x << 2u32) | 2u32) as nat == 4 * (x as nat) + 2) by (bit_vector);
    //@+     le_lemmas::pow256_values();
    //@+     if x >= 1073741824 { compact_lemmas::compact_big(x as nat, 4); }
    //@+ }
    //@fn compact.u32.using_encoded :: compact | impl Encode for CompactRef<'_,u32> | using_encoded
    //@ external_body
}
impl CompactLen<u32> for Compact<u32> {
    //@fn compact.u32.compact_len :: compact | impl CompactLen<u32>for Compact<u32> | compact_len
    //@ ret r
    //@+ ensures r == compact(*val as nat).len(),
    //@ at start
    //@+ proof { le_lemmas::pow256_values(); if *val >= 1073741824 { compact_lemmas::compact_big(*val as nat, 4); } }
}
} // mod compact_enc_u32
''',
}

BIG = r'''
// R14: leading_zeros routed through a same-bodied wrapper carrying the assumed contract, stated in bytes
// (closed by the complete Kani proof leading_zeros.$T)
#[verifier::external_body]
pub fn $T_leading_zeros(x: $T) -> (r: u32)
    ensures r <= $BITS, (x == 0 <==> r == $BITS),
        x != 0 ==> pow256(($N - r / 8 - 1) as nat) <= x < pow256(($N - r / 8) as nat),
{ x.leading_zeros() }

pub mod compact_enc_$T {
use super::*;
broadcast use auto::psc_auto;
//@module compact_enc_$T props=C01,C04,C07,C15
impl Encode for CompactRef<'_, $T> {
    open spec fn spec_enc(&self) -> Seq<u8> { compact(*self.0 as nat) }
    open spec fn enc_ok(&self) -> bool { true }
    #[verifier::external_body]
    fn size_hint(&self) -> usize { 0 }
    //@fn compact.$T.encode_to :: compact | impl Encode for CompactRef<'_,$T> | encode_to
    //@ sub `self.0.leading_zeros()` `$T_leading_zeros(*self.0)` R14
    //@ sub `for _ in 0..bytes_needed` `for i_ in 0..bytes_needed` R2
    //@ at start
    //@+ let ghost x0 = *self.0;
    //@+ let ghost out0 = dest.out();
    //@+ proof {
    //@+     broadcast use sl::push_is_concat;
    //@+     let x = *self.0;
    //@+     assert(x <= 63 ==> ((x as u8) << 2u8) as nat == 4 * (x as nat)) by (bit_vector);
    //@+     assert(x <= 16383 ==> (((x as u16) << 2u16) | 1u16) as nat == 4 * (x as nat) + 1) by (bit_vector);
    //@+     assert(x <= 1073741823 ==> (((x as u32) << 2u32) | 2u32) as nat == 4 * (x as nat) + 2) by (bit_vector);
    //@+     le_lemmas::pow256_values();
    //@+ }
    //@ at before `dest.push_byte(0b11 + ((bytes_needed - 4) << 2) as u8);`
    //@+ proof {
    //@+     if bytes_needed < 4 { compact_lemmas::pow256_mono(bytes_needed as nat, 3); }
    //@+     assert(bytes_needed >= 4);
    //@+     if bytes_needed > 4 { compact_lemmas::pow256_mono(4, (bytes_needed - 1) as nat); }
    //@+     compact_lemmas::compact_big(x0 as nat, bytes_needed as nat);
    //@+     let bn = bytes_needed;
    //@+     let d = (bn - 4) as u32;
    //@+     assert(d <= 12 ==> ((d << 2u32) as u8) as nat == (d as nat) * 4) by (bit_vector);
    //@+     assert(le(x0 as nat, 0) =~= Seq::<u8>::empty());
    //@+ }
    //@ at before `let mut v = *self.0;`
    //@+ proof {
    //@+     assert(pow256(0) == 1);
    //@+     assert((x0 as nat) / pow256(0) == x0 as nat) by (nonlinear_arith) requires pow256(0) == 1;
    //@+     let h = (3 + (bytes_needed - 4) * 4) as u8;
    //@+     assert(out0.push(h) =~= out0 + (seq![h] + le(x0 as nat, 0)));
    //@+ }
    //@ at after `for i_ in 0..bytes_needed`
    //@+ invariant
    //@+     dest.inv(),
    //@+     4 <= bytes_needed <= $N,
    //@+     x0 < pow256(bytes_needed as nat),
    //@+     v as nat == (x0 as nat) / pow256(i_ as nat),
    //@+     dest.out() == out0 + (seq![(3 + (bytes_needed - 4) * 4) as u8] + le(x0 as nat, i_ as nat)),
    //@+     out0.len() + 1 + bytes_needed <= usize::MAX,
    //@ at before `dest.push_byte(v as u8);`
    //@+ proof {
    //@+     compact_lemmas::le_snoc(x0 as nat, i_ as nat);
    //@+     compact_lemmas::div_pow256_step(x0 as nat, i_ as nat);
    //@+     let vv = v;
    //@+     assert((vv as u8) as nat == (vv as nat) % 256) by (bit_vector);
    //@+     assert((vv >> 8) as nat == (vv as nat) / 256) by (bit_vector);
    //@+ }
    //@ at before `match (&v, &0) {`
    //@+ proof { compact_lemmas::div_lt_zero(x0 as nat, bytes_needed as nat); }
    //@fn compact.$T.using_encoded :: compact | impl Encode for CompactRef<'_,$T> | using_encoded
    //@ external_body
}
impl CompactLen<$T> for Compact<$T> {
    //@fn compact.$T.compact_len :: compact | impl CompactLen<$T>for Compact<$T> | compact_len
    //@ ret r
    //@+ ensures r == compact(*val as nat).len(),
    //@ sub `val.leading_zeros()` `$T_leading_zeros(*val)` R14
    //@ at start
    //@+ proof {
    //@+     le_lemmas::pow256_values();
    //@+     let x = *val as nat;
    //@+     assert forall|k: nat| 1 <= k <= $N && 1073741824 <= x && x < #[trigger] pow256(k) && x >= pow256((k - 1) as nat) implies big_len(x) == k && k >= 4 by {
    //@+         if k < 4 { compact_lemmas::pow256_mono(k, 3); }
    //@+         compact_lemmas::compact_big(x, k);
    //@+     }
    //@+ }
}
} // mod compact_enc_$T
'''

FWD = r'''
// R5: `impl<T> Encode for Compact<T> where for<'a> CompactRef<'a, T>: Encode` (HRTB) instantiated at T = $T
pub mod compact_fwd_$M {
use super::*;
broadcast use auto::psc_auto;
//@module compact_fwd_$M props=C01,C04,C07,C16
impl Encode for Compact<$T> {
    open spec fn spec_enc(&self) -> Seq<u8> { CompactRef(&self.0).spec_enc() }
    open spec fn enc_ok(&self) -> bool { true }
    #[verifier::external_body]
    fn size_hint(&self) -> usize { 0 }
    //@fn compact.fwd.$M.encode_to :: compact | impl<T>Encode for Compact<T>where for<'a>CompactRef<'a,T>:Encode | encode_to
    //@fn compact.fwd.$M.encode :: compact | impl<T>Encode for Compact<T>where for<'a>CompactRef<'a,T>:Encode | encode
    //@fn compact.fwd.$M.using_encoded :: compact | impl<T>Encode for Compact<T>where for<'a>CompactRef<'a,T>:Encode | using_encoded
}
} // mod compact_fwd_$M
'''


def template(src, flags):
    parts = [HEAD]
    for t in ('u8', 'u16', 'u32'):
        parts.append(ENC[t])
    for t, n in (('u64', 8), ('u128', 16)):
        parts.append(BIG.replace('$BITS', str(n * 8)).replace('$N', str(n)).replace('$T', t))
    for t in ('u8', 'u16', 'u32', 'u64', 'u128'):
        parts.append(FWD.replace('$M', t).replace('$T', t))
    return '\n'.join(parts)


DEC_HEAD = r'''
pub mod compact_dec_lemmas {
use vstd::prelude::*;
use super::spec::*;
use super::le_lemmas::*;
use super::compact_lemmas::*;

pub proof fn mode0(b: Seq<u8>)
    requires b.len() >= 1, b[0] % 4 == 0
    ensures compact((b[0] / 4) as nat) == seq![b[0]], compact_dec(b) == Some(((b[0] / 4) as nat, 1nat))
{
    reveal(compact_dec);
    let p = b[0];
    assert(4 * ((p / 4) as nat) == p as nat);
    assert(compact((p / 4) as nat) =~= seq![p]);
}

pub proof fn mode1(b: Seq<u8>)
    requires b.len() >= 2, b[0] % 4 == 1
    ensures ({
        let v = from_le(b.take(2));
        &&& v < 65536
        &&& b.take(2) == le(v, 2)
        &&& (forall|w: nat| w < 65536 && #[trigger] le(w, 2) == b.take(2) ==> w == v)
        &&& (v / 4 >= 64 ==> (compact(v / 4) == b.take(2) && compact_dec(b) == Some((v / 4, 2nat))))
        &&& (v / 4 < 64 ==> compact_dec(b) is None)
    })
{
    reveal(compact_dec);
    let v = from_le(b.take(2));
    pow256_values();
    le_from_le(b.take(2));
    assert forall|w: nat| w < 65536 && #[trigger] le(w, 2) == b.take(2) implies w == v by { le_inj(w, v, 2); }
    assert(le(v, 2)[0] == (v % 256) as u8);
    assert(b.take(2)[0] == b[0]);
    assert(v % 4 == 1);
    assert(4 * (v / 4) + 1 == v);
}

pub proof fn mode2(b: Seq<u8>)
    requires b.len() >= 4, b[0] % 4 == 2
    ensures ({
        let v = from_le(b.take(4));
        &&& v < 4294967296
        &&& b.take(4) == le(v, 4)
        &&& (forall|w: nat| w < 4294967296 && #[trigger] le(w, 4) == b.take(4) ==> w == v)
        &&& (v / 4 >= 16384 ==> (compact(v / 4) == b.take(4) && compact_dec(b) == Some((v / 4, 4nat))))
        &&& (v / 4 < 16384 ==> compact_dec(b) is None)
    })
{
    reveal(compact_dec);
    let v = from_le(b.take(4));
    pow256_values();
    le_from_le(b.take(4));
    assert forall|w: nat| w < 4294967296 && #[trigger] le(w, 4) == b.take(4) implies w == v by { le_inj(w, v, 4); }
    assert(le(v, 4)[0] == (v % 256) as u8);
    assert(b.take(4)[0] == b[0]);
    assert(v % 4 == 2);
    assert(4 * (v / 4) + 2 == v);
}

pub proof fn mode3(b: Seq<u8>)
    requires b.len() >= 1, b[0] % 4 == 3, b.len() >= 1 + (b[0] / 4) as nat + 4
    ensures ({
        let k = (b[0] / 4) as nat + 4;
        let body = b.subrange(1, 1 + k as int);
        let x = from_le(body);
        &&& x < pow256(k)
        &&& body == le(x, k)
        &&& (forall|w: nat| w < pow256(k) && #[trigger] le(w, k) == body ==> w == x)
        &&& ((x >= 1073741824 && x >= pow256((k - 1) as nat)) ==> (compact(x) == seq![b[0]] + body && compact_dec(b) == Some((x, 1 + k))))
        &&& (!(x >= 1073741824 && x >= pow256((k - 1) as nat)) ==> compact_dec(b) is None)
    })
{
    reveal(compact_dec);
    let k = (b[0] / 4) as nat + 4;
    let body = b.subrange(1, 1 + k as int);
    let x = from_le(body);
    le_from_le(body);
    assert forall|w: nat| w < pow256(k) && #[trigger] le(w, k) == body implies w == x by { le_inj(w, x, k); }
    if x >= 1073741824 && x >= pow256((k - 1) as nat) {
        compact_big(x, k);
        assert(3 + (k - 4) * 4 == b[0] as nat);
    }
}

pub proof fn short(b: Seq<u8>)
    ensures
        b.len() == 0 ==> compact_dec(b) is None,
        b.len() >= 1 && b[0] % 4 == 1 && b.len() < 2 ==> compact_dec(b) is None,
        b.len() >= 1 && b[0] % 4 == 2 && b.len() < 4 ==> compact_dec(b) is None,
        b.len() >= 1 && b[0] % 4 == 3 && b.len() < 1 + (b[0] / 4) as nat + 4 ==> compact_dec(b) is None,
{
    reveal(compact_dec);
}

pub proof fn accepts_bound(b: Seq<u8>, w: nat)
    ensures compact_accepts(b, w) matches Some(n) ==> n <= b.len()
{
    reveal(compact_dec);
}

pub proof fn too_wide(b: Seq<u8>, w: nat)
    requires b.len() >= 1, b[0] % 4 == 3, (b[0] / 4) as nat + 4 > w
    ensures compact_accepts(b, w) is None
{
    reveal(compact_dec);
    let k = (b[0] / 4) as nat + 4;
    pow256_mono(w, (k - 1) as nat);
}

pub proof fn narrow_ok(b: Seq<u8>, w: nat, x: nat, n: nat)
    requires compact_dec(b) == Some((x, n)), x < pow256(w)
    ensures compact_accepts(b, w) == Some(n)
{
    reveal(compact_dec);}

} // mod compact_dec_lemmas

pub mod prefix_input {
use super::*;
broadcast use auto::psc_auto;
//@module prefix_input props=C03,C04,C08,C11,C12
impl<'a, T: 'a + Input> Input for PrefixInput<'a, T> {
    open spec fn bytes(&self) -> Seq<u8> {
        match self.prefix { Some(v) => seq![v] + self.input.bytes(), None => self.input.bytes() }
    }
    // PrefixInput does not forward descend/ascend/alloc hooks (trait defaults): it is only handed to u16/u32 decoders
    open spec fn depth_st(&self) -> Option<(nat, nat)> { None }
    open spec fn mem_room(&self) -> Option<nat> { None }
    type Frame = T;
    #[verifier::prophetic]
    open spec fn frame(&self) -> T { mut_ref_future(self.input) }

    // `self.prefix.iter().count()` (iterator adapter): outside Verus; contract assumed, discharged by Kani (kani.prefix_remaining_len)
    //@fn prefix.remaining_len :: compact | impl<'a,T:'a + Input>Input for PrefixInput<'a,T> | remaining_len
    //@ external_body
    //@fn prefix.read :: compact | impl<'a,T:'a + Input>Input for PrefixInput<'a,T> | read
    //@ ret r
    //@+ ensures
    //@+     old(buffer)@.len() > 0 && r is Ok ==> final(self).prefix is None,
    //@+     mut_ref_future(final(self).input) == mut_ref_future(old(self).input),
    //@+     final(self).input.depth_st() == old(self).input.depth_st(),
    //@+     final(self).input.frame() == old(self).input.frame(),
    //@+     final(self).input.mem_room() == old(self).input.mem_room(),
    //@ at start
    //@+ proof { broadcast use sl::take_skip; }
    //@fn prefix.descend_ref.default :: codec | pub trait Input | descend_ref
    //@ default-for compact | impl<'a,T:'a + Input>Input for PrefixInput<'a,T>
    //@fn prefix.ascend_ref.default :: codec | pub trait Input | ascend_ref
    //@ default-for compact | impl<'a,T:'a + Input>Input for PrefixInput<'a,T>
    //@fn prefix.on_before_alloc_mem.default :: codec | pub trait Input | on_before_alloc_mem
    //@ default-for compact | impl<'a,T:'a + Input>Input for PrefixInput<'a,T>
}

// R5: `u16::decode` / `u32::decode` monomorphised at I = PrefixInput<'_, T> (same real bodies), under a contract that
// exposes what happens to the wrapped input (the generic Decode contract cannot: the abstraction of PrefixInput is not injective)
//@fn prefix.u16_decode :: codec | impl Decode for u16 | decode
//@ subre `fn decode<I: Input>\(input: &mut I\)\s*->\s*Result<Self, Error>` `pub fn u16_decode_prefix<'a, T: 'a + Input>(input: &mut PrefixInput<'a, T>) -> (r: Result<u16, Error>)` R5
//@ sub `<u16>::from_le_bytes(buf)` `u16_from_le_bytes(buf)` R14
//@+ requires old(input).prefix is Some,
//@+ ensures
//@+     mut_ref_future(final(input).input) == mut_ref_future(old(input).input),
//@+     final(input).input.depth_st() == old(input).input.depth_st(),
//@+     final(input).input.frame() == old(input).input.frame(),
//@+     final(input).input.mem_room() == old(input).input.mem_room(),
//@+     match r {
//@+         Ok(v) => old(input).bytes().len() >= 2 && old(input).bytes() == le(v as nat, 2) + final(input).input.bytes() && final(input).prefix is None,
//@+         Err(_) => old(input).bytes().len() < 2,
//@+     },
//@ at before `Ok(u16_from_le_bytes(buf))`
//@+ proof { broadcast use sl::take_skip; }

//@fn prefix.u32_decode :: codec | impl Decode for u32 | decode
//@ subre `fn decode<I: Input>\(input: &mut I\)\s*->\s*Result<Self, Error>` `pub fn u32_decode_prefix<'a, T: 'a + Input>(input: &mut PrefixInput<'a, T>) -> (r: Result<u32, Error>)` R5
//@ sub `<u32>::from_le_bytes(buf)` `u32_from_le_bytes(buf)` R14
//@+ requires old(input).prefix is Some,
//@+ ensures
//@+     mut_ref_future(final(input).input) == mut_ref_future(old(input).input),
//@+     final(input).input.depth_st() == old(input).input.depth_st(),
//@+     final(input).input.frame() == old(input).input.frame(),
//@+     final(input).input.mem_room() == old(input).input.mem_room(),
//@+     match r {
//@+         Ok(v) => old(input).bytes().len() >= 4 && old(input).bytes() == le(v as nat, 4) + final(input).input.bytes() && final(input).prefix is None,
//@+         Err(_) => old(input).bytes().len() < 4,
//@+     },
//@ at before `Ok(u32_from_le_bytes(buf))`
//@+ proof { broadcast use sl::take_skip; }
} // mod prefix_input
pub use prefix_input::{u16_decode_prefix, u32_decode_prefix};
'''

DEC_COMMON_START = r'''    //@ sub `u16::decode(&mut PrefixInput {` `u16_decode_prefix(&mut PrefixInput {` R5
$SUB32    //@ at start
    //@+ let ghost b0 = input.bytes();
    //@+ proof {
    //@+     broadcast use sl::concat_take;
    //@+     le_lemmas::pow256_values();
    //@+     compact_dec_lemmas::short(b0);
    //@+     if b0.len() >= 1 {
    //@+         assert(b0 =~= seq![b0[0]] + b0.skip(1));
    //@+         if b0[0] % 4 == 0 { compact_dec_lemmas::mode0(b0); }
    //@+         if b0[0] % 4 == 1 && b0.len() >= 2 { compact_dec_lemmas::mode1(b0); }
    //@+         if b0[0] % 4 == 2 && b0.len() >= 4 { compact_dec_lemmas::mode2(b0); }
    //@+         if b0[0] % 4 == 3 && b0.len() >= 1 + (b0[0] / 4) as nat + 4 { compact_dec_lemmas::mode3(b0); }
    //@+         if b0[0] % 4 == 3 && (b0[0] / 4) as nat + 4 > $N { compact_dec_lemmas::too_wide(b0, $N); }
    //@+         assert forall|w: Seq<u8>, r: Seq<u8>| b0.skip(1) == #[trigger] (w + r) implies b0.subrange(1, 1 + w.len() as int) == w by {
    //@+             assert(b0.subrange(1, 1 + w.len() as int) =~= w);
    //@+         }
    //@+     }
    //@+     assert forall|p: u8| (#[trigger] (p >> 2u8)) == p / 4 by { assert((p >> 2u8) == p / 4) by (bit_vector); }
    //@+     assert forall|v: u16| (#[trigger] (v >> 2u16)) == v / 4 by { assert((v >> 2u16) == v / 4) by (bit_vector); }
    //@+     assert forall|v: u32| (#[trigger] (v >> 2u32)) == v / 4 by { assert((v >> 2u32) == v / 4) by (bit_vector); }
    //@+     assert forall|v: u64| (#[trigger] (v >> 2u64)) == v / 4 by { assert((v >> 2u64) == v / 4) by (bit_vector); }
    //@+     assert forall|v: u128| (#[trigger] (v >> 2u128)) == v / 4 by { assert((v >> 2u128) == v / 4) by (bit_vector); }
    //@+ }
'''

DEC_SMALL = r"""
pub mod compact_dec_$T {
use super::*;
broadcast use auto::psc_auto;
//@module compact_dec_$T props=C02,C03,C04,C08,C11,C12,C14,C18
impl Decode for Compact<$T> {
    open spec fn accepts(b: Seq<u8>) -> Option<nat> { compact_accepts(b, $N) }
    open spec fn dec_bytes(v: &Self) -> Seq<u8> { compact(v.0 as nat) }
    open spec fn need_depth(b: Seq<u8>) -> nat { 0 }
    open spec fn need_mem(b: Seq<u8>) -> Option<nat> { None }
    proof fn law_bound(b: Seq<u8>) { reveal(compact_dec); }
    //@fn compact.$T.decode :: compact | impl Decode for Compact<$T> | decode
    //@ ret r
    //@+ ensures r matches Ok(v) ==> compact_dec(old(input).bytes()) == Some((v.0 as nat, compact(v.0 as nat).len())),
$START}
} // mod compact_dec_$T
"""

DEC_BIG_LEMMAS = r"""
pub mod compact_dec_big_lemmas {
use vstd::prelude::*;
use super::spec::*;
use super::le_lemmas::*;
use super::compact_lemmas::*;

pub proof fn pow256_table()
    ensures pow256(0) == 1, pow256(1) == 0x100, pow256(2) == 0x10000, pow256(3) == 0x1000000, pow256(4) == 0x100000000,
        pow256(5) == 0x10000000000, pow256(6) == 0x1000000000000, pow256(7) == 0x100000000000000, pow256(8) == 0x10000000000000000,
        pow256(9) == 0x1000000000000000000, pow256(10) == 0x100000000000000000000, pow256(11) == 0x10000000000000000000000,
        pow256(12) == 0x1000000000000000000000000, pow256(13) == 0x100000000000000000000000000,
        pow256(14) == 0x10000000000000000000000000000, pow256(15) == 0x1000000000000000000000000000000,
        pow256(16) == 0x100000000000000000000000000000000,
{
    reveal_with_fuel(pow256, 17);
}

/// value of a byte string extended by one more significant byte
pub proof fn from_le_snoc(s: Seq<u8>, b: u8)
    ensures from_le(s.push(b)) == from_le(s) + (b as nat) * pow256(s.len())
    decreases s.len()
{
    let t = s.push(b);
    assert(t.len() == s.len() + 1);
    assert(from_le(t) == (t[0] as nat) + 256 * from_le(t.skip(1)));
    if s.len() == 0 {
        assert(t.skip(1) =~= s);
        assert(pow256(0) == 1);
        assert(from_le(s) == 0);
        assert((b as nat) * pow256(0) == b as nat) by (nonlinear_arith) requires pow256(0) == 1;
    } else {
        assert(t.skip(1) =~= s.skip(1).push(b));
        from_le_snoc(s.skip(1), b);
        let p = pow256((s.len() - 1) as nat);
        assert(pow256(s.len()) == 256 * p);
        assert(from_le(s) == (s[0] as nat) + 256 * from_le(s.skip(1)));
        assert(256 * (from_le(s.skip(1)) + (b as nat) * p) == 256 * from_le(s.skip(1)) + (b as nat) * (256 * p)) by (nonlinear_arith);
    }
}

pub proof fn from_le_bound(s: Seq<u8>)
    ensures from_le(s) < pow256(s.len())
{ le_from_le(s); }

} // mod compact_dec_big_lemmas
"""

DEC_BIG = r"""
pub mod compact_dec_$T {
use super::*;
broadcast use auto::psc_auto;
//@module compact_dec_$T props=C02,C03,C04,C08,C11,C12,C14
pub proof fn or_shift_$T(res: $T, b: u8, i: u8)
    requires i < $N, (res as nat) < pow256(i as nat)
    ensures (res | (((b as $T)) << ((i * 8) as $T))) as nat == res as nat + (b as nat) * pow256(i as nat)
{
    compact_dec_big_lemmas::pow256_table();
$ORCASES
}
pub proof fn max_shift_$T(k: u8)
    requires 5 <= k < $N
    ensures (($T::MAX >> ((($N - k + 1) * 8) as $T)) as nat) + 1 == pow256((k - 1) as nat)
{
    compact_dec_big_lemmas::pow256_table();
$MAXCASES
}
impl Decode for Compact<$T> {
    open spec fn accepts(b: Seq<u8>) -> Option<nat> { compact_accepts(b, $N) }
    open spec fn dec_bytes(v: &Self) -> Seq<u8> { compact(v.0 as nat) }
    open spec fn need_depth(b: Seq<u8>) -> nat { 0 }
    open spec fn need_mem(b: Seq<u8>) -> Option<nat> { None }
    proof fn law_bound(b: Seq<u8>) { reveal(compact_dec); }
    #[verifier::rlimit(40)]
    #[verifier::spinoff_prover]
    //@fn compact.$T.decode :: compact | impl Decode for Compact<$T> | decode
    //@ ret r
    //@+ ensures r matches Ok(v) ==> compact_dec(old(input).bytes()) == Some((v.0 as nat, compact(v.0 as nat).len())),
$START    //@ at before `let prefix = input.read_byte()?;`
    //@+ proof {
    //@+     compact_dec_big_lemmas::pow256_table();
    //@+     assert((u64::MAX >> 8u64) == 0xffffffffffffffu64) by (bit_vector);
    //@+     assert((u128::MAX >> 8u128) == 0xffffffffffffffffffffffffffffffu128) by (bit_vector);
    //@+ }
$ARMS    //@ at before `let mut res = 0;`
    //@+ proof {
    //@+     compact_dec_big_lemmas::pow256_table();
    //@+     assert(prefix == b0[0]);
    //@+     assert((prefix >> 2u8) == prefix / 4);
    //@+     assert(bytes_needed == prefix / 4 + 4);
    //@+     assert(5 <= bytes_needed < $N);
    //@+     max_shift_$T(bytes_needed);
    //@+     assert(b0.subrange(1, 1) =~= Seq::<u8>::empty());
    //@+ }
    //@ at after `for i in 0..bytes_needed`
    //@+ invariant
    //@+     5 <= bytes_needed < $N,
    //@+     bytes_needed as nat == (b0[0] / 4) as nat + 4,
    //@+     b0.len() >= 1 + i,
    //@+     input.bytes() == b0.skip(1 + i as int),
    //@+     res as nat == from_le(b0.subrange(1, 1 + i as int)),
    //@+     input.depth_st() == old(input).depth_st(),
    //@+     input.mem_room() == old(input).mem_room(),
    //@+     input.frame() == old(input).frame(),
    //@+     b0 == old(input).bytes(),
    //@+     b0.len() >= 1 && b0[0] % 4 == 3,
    //@+     b0.len() < 1 + bytes_needed ==> compact_dec(b0) is None,
    //@ at after `res |= $T::from(input.read_byte()?) << (i * 8);`
    //@+ proof { assert(res == r0_ | ((b0[1 + i as int] as $T) << ((i * 8) as $T))); }
    //@ at before `res |= $T::from(input.read_byte()?) << (i * 8);`
    //@+ let ghost r0_ = res;
    //@+ proof {
    //@+     compact_dec_big_lemmas::from_le_bound(b0.subrange(1, 1 + i as int));
    //@+     if b0.len() >= 2 + i {
    //@+         or_shift_$T(res, b0[1 + i as int], i);
    //@+         compact_dec_big_lemmas::from_le_snoc(b0.subrange(1, 1 + i as int), b0[1 + i as int]);
    //@+         assert(b0.subrange(1, 1 + i as int).push(b0[1 + i as int]) =~= b0.subrange(1, 2 + i as int));
    //@+     }
    //@+ }
}
} // mod compact_dec_$T
"""


def big_cases(t, n):
    orc = []
    for i in range(n):
        orc.append('    if i == %d { assert((res as %s) < (1%s << %d%s) ==> (res | ((b as %s) << %d%s)) == res + (b as %s) * (1%s << %d%s)) by (bit_vector); assert((1%s << %d%s) == 0x1%s) by (bit_vector); }' % (
            i, t, t, 8 * i, t, t, 8 * i, t, t, t, 8 * i, t, t, 8 * i, t, '00' * i))
    mx = []
    for k in range(5, n):
        sh = (n - k + 1) * 8
        mx.append('    if k == %d { assert((%s::MAX >> %d%s) == 0x%s) by (bit_vector); }' % (k, t, sh, t, 'ff' * (k - 1)))
    return '\n'.join(orc), '\n'.join(mx)


def dec_template():
    out = [DEC_HEAD]
    for t, n in (('u8', 1), ('u16', 2), ('u32', 4)):
        sub32 = '' if t == 'u8' else '    //@ sub `u32::decode(&mut PrefixInput {` `u32_decode_prefix(&mut PrefixInput {` R5\n'
        st = DEC_COMMON_START.replace('$SUB32', sub32).replace('$N', str(n))
        out.append(DEC_SMALL.replace('$START', st).replace('$N', str(n)).replace('$T', t))
    out.append(DEC_BIG_LEMMAS)
    for t, n in (('u64', 8), ('u128', 16)):
        sub32 = '    //@ sub `u32::decode(&mut PrefixInput {` `u32_decode_prefix(&mut PrefixInput {` R5\n'
        st = DEC_COMMON_START.replace('$SUB32', sub32).replace('$N', str(n))
        orc, mx = big_cases(t, n)
        arms = ''.join('    //@ at after `%d => {`\n    //@+ proof { assert((b0[0] / 4) as nat + 4 == %d); }\n' % (k, k) for k in (4, 8, 16) if k <= n)
        out.append(DEC_BIG.replace('$ARMS', arms).replace('$START', st).replace('$ORCASES', orc).replace('$MAXCASES', mx).replace('$N', str(n)).replace('$T', t))
    return '\n'.join(out)


_old_template = template


def template(src, flags):
    return _old_template(src, flags) + '\n' + dec_template()
