"""Template family: impl_endians! / impl_one_byte! expansions (fixed-width integers) + bool."""

INTS = [('u16', 2, 'U16'), ('u32', 4, 'U32'), ('u64', 8, 'U64'), ('u128', 16, 'U128'),
        ('i16', 2, 'I16'), ('i32', 4, 'I32'), ('i64', 8, 'I64'), ('i128', 16, 'I128')]
BYTES = [('u8', 'U8'), ('i8', 'I8')]

WRAP = '''
// R14: `$T::to_le_bytes` / `from_le_bytes` have a return type Verus cannot name in an assume_specification;
// the call is routed through a same-bodied external wrapper that carries the assumed contract
// (closed by the complete Kani proofs le.$T.*).
#[verifier::external_body]
pub fn $T_to_le_bytes(x: $T) -> (r: [u8; $N])
    ensures r@ == le($VAL(x), $N),
{ x.to_le_bytes() }
#[verifier::external_body]
pub fn $T_from_le_bytes(b: [u8; $N]) -> (r: $T)
    ensures b@ == le($VAL(r), $N),
{ <$T>::from_le_bytes(b) }
'''

INT = '''
pub mod prim_$T {
use super::*;
broadcast use auto::psc_auto;
//@module prim_$T props=C01,C02,C03,C07,C08,C11,C12,C13,C14,C18
impl Encode for $T {
    open spec fn spec_enc(&self) -> Seq<u8> { le($VAL(*self), $N) }
    open spec fn enc_ok(&self) -> bool { true }
    //@const codec | impl Encode for $T | TYPE_INFO
    #[verifier::external_body]
    fn size_hint(&self) -> usize { $N }
    //@fn prim.$T.using_encoded :: codec | impl Encode for $T | using_encoded
    //@ sub `self.to_le_bytes()` `$T_to_le_bytes(*self)` R14
}
impl Decode for $T {
    open spec fn accepts(b: Seq<u8>) -> Option<nat> { if b.len() >= $N { Some($Nnat) } else { None } }
    open spec fn dec_bytes(v: &Self) -> Seq<u8> { le($VAL(*v), $N) }
    open spec fn need_depth(b: Seq<u8>) -> nat { 0 }
    open spec fn need_mem(b: Seq<u8>) -> Option<nat> { None }
    proof fn law_bound(b: Seq<u8>) {}
    //@const codec | impl Decode for $T | TYPE_INFO
    //@fn prim.$T.decode :: codec | impl Decode for $T | decode
    //@ sub `<$T>::from_le_bytes(buf)` `$T_from_le_bytes(buf)` R14
    //@ at before `Ok($T_from_le_bytes(buf))`
    //@+ proof { broadcast use sl::take_skip; }
    //@fn prim.$T.encoded_fixed_size :: codec | impl Decode for $T | encoded_fixed_size
    //@fn prim.$T.skip.default :: codec | pub trait Decode:Sized | skip
    //@ default-for codec | impl Decode for $T
}
//@lemma prim.$T.type_info props=C01,C02,C06,C16
/// the fake-specialisation tag of `$T` names `$T` (the bulk paths of slices, arrays and vectors dispatch on it)
pub proof fn type_info_$T()
    ensures <$T as Encode>::TYPE_INFO == TypeInfo::$TI, <$T as Decode>::TYPE_INFO == TypeInfo::$TI,
{}
} // mod prim_$T
'''

BYTE = '''
pub mod prim_$T {
use super::*;
broadcast use auto::psc_auto;
//@module prim_$T props=C01,C02,C03,C07,C08,C11,C12,C13,C14,C18
impl Encode for $T {
    open spec fn spec_enc(&self) -> Seq<u8> { le($VAL(*self), 1) }
    open spec fn enc_ok(&self) -> bool { true }
    //@const codec | impl Encode for $T | TYPE_INFO
    #[verifier::external_body]
    fn size_hint(&self) -> usize { 1 }
    //@fn prim.$T.using_encoded :: codec | impl Encode for $T | using_encoded
    //@ at before `f(&[*self as u8][..])`
    //@+ proof { $HINT le_lemmas::le_1($VAL(*self)); assert([*self as u8]@ =~= le($VAL(*self), 1)); }
}
impl Decode for $T {
    open spec fn accepts(b: Seq<u8>) -> Option<nat> { if b.len() >= 1 { Some(1nat) } else { None } }
    open spec fn dec_bytes(v: &Self) -> Seq<u8> { le($VAL(*v), 1) }
    open spec fn need_depth(b: Seq<u8>) -> nat { 0 }
    open spec fn need_mem(b: Seq<u8>) -> Option<nat> { None }
    proof fn law_bound(b: Seq<u8>) {}
    //@const codec | impl Decode for $T | TYPE_INFO
    //@fn prim.$T.decode :: codec | impl Decode for $T | decode
    //@ at before `Ok(input.read_byte()? as $T)`
    //@+ proof { $HINT broadcast use sl::take_skip; assert(forall|s: Seq<u8>| s.len() >= 1 ==> #[trigger] s.take(1) =~= seq![s[0]]); }
    //@fn prim.$T.encoded_fixed_size.default :: codec | pub trait Decode:Sized | encoded_fixed_size
    //@ default-for codec | impl Decode for $T
    //@fn prim.$T.skip.default :: codec | pub trait Decode:Sized | skip
    //@ default-for codec | impl Decode for $T
}
//@lemma prim.$T.type_info props=C01,C02,C06,C16
pub proof fn type_info_$T()
    ensures <$T as Encode>::TYPE_INFO == TypeInfo::$TI, <$T as Decode>::TYPE_INFO == TypeInfo::$TI,
{}
} // mod prim_$T
'''

BOOL = '''
pub mod prim_bool {
use super::*;
broadcast use auto::psc_auto;
//@module prim_bool props=C01,C02,C03,C07,C08,C11,C12,C13,C14,C18
impl Encode for bool {
    open spec fn spec_enc(&self) -> Seq<u8> { if *self { seq![1u8] } else { seq![0u8] } }
    open spec fn enc_ok(&self) -> bool { true }
    #[verifier::external_body]
    fn size_hint(&self) -> usize { 1 }
    //@fn prim.bool.using_encoded :: codec | impl Encode for bool | using_encoded
    //@ at before `f(&[*self as u8][..])`
    //@+ proof { assert([*self as u8]@ =~= (if *self { seq![1u8] } else { seq![0u8] })); }
}
impl Decode for bool {
    open spec fn accepts(b: Seq<u8>) -> Option<nat> { if b.len() >= 1 && (b[0] == 0 || b[0] == 1) { Some(1nat) } else { None } }
    open spec fn dec_bytes(v: &Self) -> Seq<u8> { if *v { seq![1u8] } else { seq![0u8] } }
    open spec fn need_depth(b: Seq<u8>) -> nat { 0 }
    open spec fn need_mem(b: Seq<u8>) -> Option<nat> { None }
    proof fn law_bound(b: Seq<u8>) {}
    //@fn prim.bool.decode :: codec | impl Decode for bool | decode
    //@ at before `match byte {`
    //@+ proof { broadcast use sl::take_skip; assert(forall|s: Seq<u8>| s.len() >= 1 ==> #[trigger] s.take(1) =~= seq![s[0]]); }
    //@fn prim.bool.encoded_fixed_size :: codec | impl Decode for bool | encoded_fixed_size
    //@fn prim.bool.skip.default :: codec | pub trait Decode:Sized | skip
    //@ default-for codec | impl Decode for bool
}
} // mod prim_bool
'''


def val(t, n):
    return '(%s) as nat' if t.startswith('u') else 'twos((%s) as int, ' + str(n) + ')'


def inst(tmpl, t, n, ti):
    v = val(t, n)
    import re
    out = tmpl.replace('$Nnat', '%dnat' % n).replace('$N', str(n)).replace('$TI', ti)
    out = re.sub(r'\$VAL\(([^()]*)\)', lambda m: v % m.group(1), out)
    out = out.replace('$HINT', '' if t.startswith('u') else 'le_lemmas::pow256_values();')
    return out.replace('$T', t)


def type_info_closure(src):
    """The assumed contracts of the bulk (transmuting) paths -- encode_slice_no_len, decode_vec_with_len, the array
    fast paths -- are sound only if TYPE_INFO differs from Unknown for the 12 primitives alone.  Enumerate every
    `const TYPE_INFO` of the expansion: one outside the registered primitive impls loses that closure (undecided)."""
    import re
    from extract import LostAnchor
    allowed = set()
    for t in [x[0] for x in INTS] + [x[0] for x in BYTES] + ['f32', 'f64']:
        allowed.add('impl Encode for %s' % t)
        allowed.add('impl Decode for %s' % t)
    bad = []
    for it in src.impls(r'\b(Encode|Decode) for'):
        m = re.search(r'const\s+TYPE_INFO\s*:\s*TypeInfo\s*=\s*([^;]*);', it.text)
        if not m or it.header in allowed:
            continue
        if re.sub(r'\s', '', m.group(1)) in ('TypeInfo::Unknown', 'crate::codec::TypeInfo::Unknown'):
            continue
        bad.append('%s { const TYPE_INFO = %s }' % (it.header, m.group(1).strip()))
    if bad:
        raise LostAnchor('TYPE_INFO is declared outside the 12 registered primitive impls: %s -- the assumed contracts of the '
                         'transmuting bulk paths (encode_slice_no_len, decode_vec_with_len, array fast paths) no longer cover '
                         'the code' % '; '.join(bad))


def template(src, flags):
    type_info_closure(src)
    parts = ['// ===== fixed-width integers (generated from verus/30_prims.py) =====\n',
             '']
    for t, n, ti in INTS:
        parts.append(inst(WRAP, t, n, ti))
    for t, n, ti in INTS:
        parts.append(inst(INT, t, n, ti))
    for t, ti in BYTES:
        parts.append(inst(BYTE, t, 1, ti))
    parts.append(BOOL)
    return '\n'.join(parts)
