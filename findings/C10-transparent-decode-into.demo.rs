use parity_scale_codec::{Decode, Error, Input};
use std::sync::atomic::{AtomicIsize, Ordering::SeqCst};
static LIVE: AtomicIsize = AtomicIsize::new(0);
struct D(u8);
impl Drop for D { fn drop(&mut self) { LIVE.fetch_sub(1, SeqCst); } }
impl Decode for D {
    fn decode<I: Input>(i: &mut I) -> Result<Self, Error> { let b = i.read_byte()?; LIVE.fetch_add(1, SeqCst); Ok(D(b)) }
}
/// zero-sized marker whose encoding is one tag byte that must be 0
struct Tag;
impl Decode for Tag {
    fn decode<I: Input>(i: &mut I) -> Result<Self, Error> { if i.read_byte()? != 0 { return Err("bad tag".into()) } Ok(Tag) }
}
#[derive(Decode)]
#[repr(transparent)]
struct W(D, Tag);
#[derive(Decode)]
struct NotTransparent(D, Tag);
fn main() {
    // control: ordinary derived struct, failing second field
    assert!(NotTransparent::decode(&mut &[7u8, 1][..]).is_err());
    println!("derived struct, plain decode:            live = {}", LIVE.load(SeqCst));
    assert!(W::decode(&mut &[7u8, 1][..]).is_err());
    println!("transparent struct, plain decode:        live = {}", LIVE.load(SeqCst));
    assert!(Box::<W>::decode(&mut &[7u8, 1][..]).is_err());
    println!("transparent struct, Box (decode_into):   live = {}", LIVE.load(SeqCst));
    LIVE.store(0, SeqCst);
    assert!(<[W; 2]>::decode(&mut &[7u8, 0, 8, 1][..]).is_err());
    println!("transparent struct, [W;2] (decode_into): live = {}", LIVE.load(SeqCst));
    let _ = (W(D(0), Tag)).0 .0;
}
