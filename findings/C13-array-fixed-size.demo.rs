use parity_scale_codec::{Decode, Error, Input};
struct Z;
impl Decode for Z {
    fn decode<I: Input>(i: &mut I) -> Result<Self, Error> { i.read_byte()?; i.read_byte()?; Ok(Z) }
    fn encoded_fixed_size() -> Option<usize> { Some(2) }
}
fn main() {
    // every value of Z encodes in 2 bytes, so the report is truthful; [Z; N] is a valid (zero-sized) type for every N
    let r = std::panic::catch_unwind(|| <[Z; usize::MAX]>::encoded_fixed_size());
    println!("encoded_fixed_size of [Z; usize::MAX] -> {:?}", r.as_ref().map_err(|_| "PANIC"));
}
