// Kani harnesses hosted in src/codec.rs (wave 4 of seeded changes): twins for code Verus cannot be given a contract for,
// or where a restructured body would leave the Verus side undecided.
use super::*;
use crate::{Compact, Decode, DecodeLength, DecodeLimit, Encode, Error, Input, OptionBool, Output};
use crate::alloc::{boxed::Box, collections::{BTreeMap, BTreeSet, LinkedList, VecDeque}, vec::Vec};
use core::num::{NonZeroU16, NonZeroU8};
include!("/verif/kani/vk.rs");

pub struct Buf { pub b: [u8; 80], pub n: usize }
impl Buf { pub fn new() -> Self { Buf { b: [0; 80], n: 0 } } }
impl Output for Buf {
    fn write(&mut self, bytes: &[u8]) {
        let l = bytes.len();
        assert!(self.n + l <= 80);
        let mut i = 0;
        while i < l { self.b[self.n + i] = bytes[i]; i += 1; }
        self.n += l;
    }
}

// ---- C03: arrays / vectors of NonZero integers reject a zero element (the bulk paths must not bypass the element decoder) ----
fn nonzero_in_array_body() {
    let a = vk::any_u8(); let b = vk::any_u8(); let c = vk::any_u8();
    let bytes = [a, b, c];
    let mut i1: &[u8] = &bytes[..2];
    let r = <[NonZeroU8; 2]>::decode(&mut i1);
    assert!(r.is_ok() == (a != 0 && b != 0), "[NonZeroU8;2] accepts a zero element or rejects non-zero ones");
    if let Ok(v) = r { assert!(v[0].get() == a && v[1].get() == b && i1.len() == 0); }
    let mut i2: &[u8] = &bytes[..2];
    let r2 = <[NonZeroU16; 1]>::decode(&mut i2);
    assert!(r2.is_ok() == (a != 0 || b != 0), "[NonZeroU16;1] accepts zero");
    // a one-element vector: count byte 4, then the element
    let vb = [4u8, c];
    let mut i3: &[u8] = &vb[..];
    let r3 = <Vec<NonZeroU8>>::decode(&mut i3);
    assert!(r3.is_ok() == (c != 0), "Vec<NonZeroU8> accepts a zero element");
}
#[cfg(kani)] #[kani::proof] #[kani::unwind(6)] fn nonzero_in_array() { nonzero_in_array_body() }
#[cfg(all(not(kani), psc_verif_replay))] #[test] fn replay_nonzero_in_array() { vk::load_replay(); nonzero_in_array_body() }

// ---- C07: the four entry points of arrays whose element is one byte in memory but not its own encoding ------------------
fn array_entrypoints_body() {
    let x = vk::any_u8(); let y = vk::any_u8();
    vk::assume(x < 3 && y < 3);
    let f = |k: u8| -> Option<bool> { if k == 0 { None } else { Some(k == 2) } };
    let arr: [Option<bool>; 2] = [f(x), f(y)];
    let mut o = Buf::new();
    arr.encode_to(&mut o);
    let v = arr.encode();
    assert!(v.len() == o.n && arr.encoded_size() == o.n, "encode / encoded_size disagree with encode_to on [Option<bool>;2]");
    let same = arr.using_encoded(|s| { s.len() == o.n && (o.n < 1 || s[0] == o.b[0]) && (o.n < 2 || s[1] == o.b[1]) && (o.n < 3 || s[2] == o.b[2]) && (o.n < 4 || s[3] == o.b[3]) });
    assert!(same, "using_encoded disagrees with encode_to on [Option<bool>;2]");
    let ob: [OptionBool; 2] = [OptionBool(f(x)), OptionBool(f(y))];
    let mut o2 = Buf::new();
    ob.encode_to(&mut o2);
    let same2 = ob.using_encoded(|s| s.len() == o2.n && s[0] == o2.b[0] && s[1] == o2.b[1]);
    assert!(o2.n == 2 && same2, "using_encoded disagrees with encode_to on [OptionBool;2]");
    let cu: [Compact<u8>; 2] = [Compact(vk::any_u8()), Compact(vk::any_u8())];
    let mut o3 = Buf::new();
    cu.encode_to(&mut o3);
    let n3 = o3.n;
    let same3 = cu.using_encoded(|s| { let mut ok = s.len() == n3; let mut i = 0; while i < n3 && ok { ok = s[i] == o3.b[i]; i += 1; } ok });
    assert!(same3 && cu.encoded_size() == n3, "using_encoded / encoded_size disagree with encode_to on [Compact<u8>;2]");
}
#[cfg(kani)] #[kani::proof] #[kani::unwind(8)] fn array_entrypoints() { array_entrypoints_body() }
#[cfg(all(not(kani), psc_verif_replay))] #[test] fn replay_array_entrypoints() { vk::load_replay(); array_entrypoints_body() }

// ---- C14/C03/C10: Box of a zero-sized type whose encoding is not empty -------------------------------------------------
pub struct Zt;
impl Decode for Zt {
    fn decode<I: Input>(input: &mut I) -> Result<Self, Error> {
        if input.read_byte()? >= 0x80 { return Err("bad marker".into()); }
        Ok(Zt)
    }
}
fn box_zst_body() {
    let bytes = [vk::any_u8(), vk::any_u8()];
    let len = vk::any_usize();
    vk::assume(len <= 2);
    let mut a: &[u8] = &bytes[..len];
    let mut b: &[u8] = &bytes[..len];
    let r1 = <Zt>::decode(&mut a);
    let r2 = <Box<Zt>>::decode(&mut b);
    assert!(r1.is_ok() == r2.is_ok(), "Box<T> of a zero-sized T accepts what T rejects (or the reverse)");
    assert!(a.len() == b.len(), "Box<T> of a zero-sized T consumes a different number of bytes than T");
    let mut c: &[u8] = &bytes[..len];
    let r3 = <Box<[Zt; 2]>>::decode(&mut c);
    assert!(r3.is_ok() == (len == 2 && bytes[0] < 0x80 && bytes[1] < 0x80), "Box<[Zt;2]> does not decode its two markers");
    if r3.is_ok() { assert!(c.len() == 0); }
}
#[cfg(kani)] #[kani::proof] #[kani::unwind(5)] fn box_zst() { box_zst_body() }
#[cfg(all(not(kani), psc_verif_replay))] #[test] fn replay_box_zst() { vk::load_replay(); box_zst_body() }

// ---- C18: the peeked length is the compact count, for every prefix the count decoder accepts ----------------------------
fn decode_len_body() {
    let bytes = [vk::any_u8(), vk::any_u8(), vk::any_u8(), vk::any_u8(), vk::any_u8()];
    let len = vk::any_usize();
    vk::assume(len <= 5);
    let mut inp: &[u8] = &bytes[..len];
    let full = <Compact<u32>>::decode(&mut inp);
    let l1 = <Vec<u8> as DecodeLength>::len(&bytes[..len]);
    let l2 = <BTreeMap<u8, u8> as DecodeLength>::len(&bytes[..len]);
    let l3 = <(LinkedList<u16>, u8) as DecodeLength>::len(&bytes[..len]);
    match full {
        Ok(Compact(n)) => {
            assert!(matches!(l1, Ok(k) if k == n as usize), "DecodeLength of Vec differs from the compact count");
            assert!(matches!(l2, Ok(k) if k == n as usize), "DecodeLength of BTreeMap differs from the compact count");
            assert!(matches!(l3, Ok(k) if k == n as usize), "DecodeLength of a tuple led by a list differs from the compact count");
        }
        Err(_) => assert!(l1.is_err() && l2.is_err() && l3.is_err(), "DecodeLength accepts a count the compact decoder rejects"),
    }
}
#[cfg(kani)] #[kani::proof] #[kani::unwind(7)] fn decode_len() { decode_len_body() }
#[cfg(all(not(kani), psc_verif_replay))] #[test] fn replay_decode_len() { vk::load_replay(); decode_len_body() }

// ---- C11: siblings do not accumulate depth: (container, Box<u8>) needs one level whatever the first container holds ------
macro_rules! sibling_harness {
    ($body:ident, $proof:ident, $replay:ident, $t:ty, $msg:expr) => {
        fn $body() {
            let x = vk::any_u8();
            let lim = vk::any_u32();
            // empty first container: the count byte is the literal 0 (for Box<u8>: the value 0)
            let bytes = [0u8, x];
            let mut i1: &[u8] = &bytes[..];
            let r1 = <($t, Box<u8>)>::decode_with_depth_limit(lim, &mut i1);
            assert!(r1.is_ok() == (lim >= 1), $msg);
            if let Ok(v) = r1 { assert!(*v.1 == x && i1.len() == 0); }
        }
        #[cfg(kani)] #[kani::proof] #[kani::unwind(5)] fn $proof() { $body() }
        #[cfg(all(not(kani), psc_verif_replay))] #[test] fn $replay() { vk::load_replay(); $body() }
    };
}
sibling_harness!(sibling_depth_map_body, sibling_depth_map, replay_sibling_depth_map, BTreeMap<u8, u8>, "an empty map followed by a box needs exactly one level");
sibling_harness!(sibling_depth_set_body, sibling_depth_set, replay_sibling_depth_set, BTreeSet<u8>, "an empty set followed by a box needs exactly one level");
sibling_harness!(sibling_depth_list_body, sibling_depth_list, replay_sibling_depth_list, LinkedList<u8>, "an empty list followed by a box needs exactly one level");
sibling_harness!(sibling_depth_vec_body, sibling_depth_vec, replay_sibling_depth_vec, Vec<bool>, "an empty vector followed by a box needs exactly one level");
sibling_harness!(sibling_depth_box_body, sibling_depth_box, replay_sibling_depth_box, Box<u8>, "two sibling boxes need exactly one level");

// ---- C06: a wrapped VecDeque of wide items encodes its logical content ------------------------------------------------------
fn vecdeque_wide_body() {
    let a = vk::any_u8(); let b = vk::any_u8(); let c = vk::any_u8();
    let mut d: VecDeque<[u8; 17]> = VecDeque::with_capacity(4);
    d.push_back([b; 17]); d.push_back([c; 17]); d.push_front([a; 17]);
    let mut o = Buf::new();
    d.encode_to(&mut o);
    assert!(o.n == 1 + 3 * 17 && o.b[0] == 12, "wrong length");
    assert!(o.b[1] == a && o.b[17] == a && o.b[18] == b && o.b[34] == b && o.b[35] == c && o.b[51] == c, "wrapped VecDeque of wide items is not encoded in logical order");
}
#[cfg(kani)] #[kani::proof] #[kani::unwind(20)] fn vecdeque_wide() { vecdeque_wide_body() }
#[cfg(all(not(kani), psc_verif_replay))] #[test] fn replay_vecdeque_wide() { vk::load_replay(); vecdeque_wide_body() }

// ---- C05/C02/C03: the derived in-place decoder (decode_into, used under Box / arrays) agrees with the derived decoder --------
#[derive(crate::Decode)]
#[codec(crate = crate)]
#[repr(transparent)]
pub struct TCompact(#[codec(compact)] u32, core::marker::PhantomData<u8>);
#[derive(crate::Decode)]
#[codec(crate = crate)]
#[repr(transparent)]
pub struct TPlain(u16, core::marker::PhantomData<u8>);
fn decode_into_vs_decode_body() {
    let bytes = [vk::any_u8(), vk::any_u8(), vk::any_u8(), vk::any_u8(), vk::any_u8()];
    let len = vk::any_usize();
    vk::assume(len <= 5);
    let mut a: &[u8] = &bytes[..len];
    let mut b: &[u8] = &bytes[..len];
    let r1 = <TCompact>::decode(&mut a);
    let r2 = <Box<TCompact>>::decode(&mut b);
    match (r1, r2) {
        (Ok(x), Ok(y)) => assert!(x.0 == y.0 && a.len() == b.len(), "Box<T> of a derived transparent struct decodes a different value or consumes different bytes than T"),
        (Err(_), Err(_)) => {}
        _ => assert!(false, "Box<T> of a derived transparent struct accepts what T rejects (or the reverse)"),
    }
    // the field attribute decides the layout: the compact form of the value, not four raw bytes
    let mut c: &[u8] = &bytes[..len];
    let r3 = <Compact<u32>>::decode(&mut c);
    let mut d: &[u8] = &bytes[..len];
    let r4 = <Box<TCompact>>::decode(&mut d);
    match (r3, r4) {
        (Ok(Compact(v)), Ok(y)) => assert!(v == y.0 && c.len() == d.len(), "#[codec(compact)] field of a transparent struct is not decoded as a compact integer in place"),
        (Err(_), Err(_)) => {}
        _ => assert!(false, "in-place decoding of a #[codec(compact)] field disagrees with Compact<u32> on acceptance"),
    }
    let mut e: &[u8] = &bytes[..len];
    let mut f: &[u8] = &bytes[..len];
    let r5 = <TPlain>::decode(&mut e);
    let r6 = <[TPlain; 1]>::decode(&mut f);
    match (r5, r6) {
        (Ok(x), Ok(y)) => assert!(x.0 == y[0].0 && e.len() == f.len(), "[T;1] of a derived transparent struct differs from T"),
        (Err(_), Err(_)) => {}
        _ => assert!(false, "[T;1] of a derived transparent struct accepts what T rejects (or the reverse)"),
    }
}
#[cfg(kani)] #[kani::proof] #[kani::unwind(8)] fn decode_into_vs_decode() { decode_into_vs_decode_body() }
#[cfg(all(not(kani), psc_verif_replay))] #[test] fn replay_decode_into_vs_decode() { vk::load_replay(); decode_into_vs_decode_body() }

// ---- C09: an input that cannot report its length; a claimed count of 2^20 with three payload bytes behind it ------------------
/// delivers `data`, never reports a remaining length, records the largest announced allocation
pub struct Blind<'a> { data: &'a [u8], pos: usize, max_announced: usize }
impl<'a> Input for Blind<'a> {
    fn remaining_len(&mut self) -> Result<Option<usize>, Error> { Ok(None) }
    fn read(&mut self, into: &mut [u8]) -> Result<(), Error> {
        if into.len() > self.data.len() - self.pos { return Err("eof".into()); }
        let mut i = 0;
        while i < into.len() { into[i] = self.data[self.pos + i]; i += 1; }
        self.pos += into.len();
        Ok(())
    }
    fn on_before_alloc_mem(&mut self, size: usize) -> Result<(), Error> {
        if size > self.max_announced { self.max_announced = size; }
        Ok(())
    }
}
fn blind_alloc_body() {
    // compact(2^20) in four-byte mode, then three payload bytes
    let bytes = [0x02u8, 0x00, 0x40, 0x00, vk::any_u8(), vk::any_u8(), vk::any_u8()];
    let mut i1 = Blind { data: &bytes[..], pos: 0, max_announced: 0 };
    let r1 = <crate::alloc::string::String>::decode(&mut i1);
    assert!(r1.is_err(), "a string claiming 2^20 bytes decoded from 3");
    assert!(i1.max_announced <= MAX_PREALLOCATION, "String decoding announced (and requested) memory by the claimed count, not chunk by chunk");
    let mut i2 = Blind { data: &bytes[..], pos: 0, max_announced: 0 };
    let r2 = <Vec<u8>>::decode(&mut i2);
    assert!(r2.is_err() && i2.max_announced <= MAX_PREALLOCATION, "Vec<u8> decoding announced memory by the claimed count");
    let mut i3 = Blind { data: &bytes[..], pos: 0, max_announced: 0 };
    let r3 = <Vec<u32>>::decode(&mut i3);
    assert!(r3.is_err() && i3.max_announced <= MAX_PREALLOCATION, "Vec<u32> decoding announced memory by the claimed count");
}
#[cfg(kani)] #[kani::proof] #[kani::unwind(6)] fn blind_alloc() { blind_alloc_body() }
#[cfg(all(not(kani), psc_verif_replay))] #[test] fn replay_blind_alloc() { vk::load_replay(); blind_alloc_body() }

// ---- C03 (wave 6): collections of elements with an EMPTY encoding: a count needs no payload bytes ---------------------------
// `[4n]` alone is a valid encoding of n units; a guard comparing the count with the bytes left rejects valid input.
fn zero_width_elems_body() {
    let bytes = [vk::any_u8(), vk::any_u8(), vk::any_u8()];
    vk::assume(bytes[0] % 4 == 0 && bytes[0] <= 12);
    let n = (bytes[0] >> 2) as usize;
    let len = vk::any_usize();
    vk::assume(1 <= len && len <= 3);
    let mut a: &[u8] = &bytes[..len];
    let r = <LinkedList<()>>::decode(&mut a);
    assert!(matches!(&r, Ok(l) if l.len() == n), "LinkedList<()>: a valid count of empty-encoded elements is rejected or miscounted");
    assert!(a.len() == len - 1, "LinkedList<()> consumed payload bytes that do not belong to it");
    let mut b: &[u8] = &bytes[..len];
    let r = <VecDeque<()>>::decode(&mut b);
    assert!(matches!(&r, Ok(l) if l.len() == n), "VecDeque<()>: a valid count of empty-encoded elements is rejected or miscounted");
    assert!(b.len() == len - 1, "VecDeque<()> consumed payload bytes that do not belong to it");
    let mut c: &[u8] = &bytes[..len];
    let r = <BTreeSet<()>>::decode(&mut c);
    assert!(matches!(&r, Ok(l) if l.len() == (if n == 0 { 0 } else { 1 })), "BTreeSet<()>: a valid count of empty-encoded elements is rejected");
    assert!(c.len() == len - 1, "BTreeSet<()> consumed payload bytes that do not belong to it");
}
#[cfg(kani)] #[kani::proof] #[kani::unwind(6)] fn zero_width_elems() { zero_width_elems_body() }
#[cfg(all(not(kani), psc_verif_replay))] #[test] fn replay_zero_width_elems() { vk::load_replay(); zero_width_elems_body() }
