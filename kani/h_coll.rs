// Kani harnesses hosted in src/codec.rs: collection types whose iteration / construction goes through std iterators
// (outside the Verus subset).  Bounded stand-ins: at most two elements.
use super::*;
use crate::{Decode, Encode, Error, Input, Output};
use crate::alloc::{collections::{BTreeMap, BTreeSet, BinaryHeap, LinkedList, VecDeque}, string::String, vec::Vec};
include!("/verif/kani/vk.rs");

pub struct Buf { pub b: [u8; 16], pub n: usize }
impl Buf { pub fn new() -> Self { Buf { b: [0; 16], n: 0 } } }
impl Output for Buf {
    fn write(&mut self, bytes: &[u8]) {
        let l = bytes.len();
        assert!(self.n + l <= 16);
        let mut i = 0;
        while i < l { self.b[self.n + i] = bytes[i]; i += 1; }
        self.n += l;
    }
}
fn two_bytes_input() -> ([u8; 3], usize) {
    // count byte (compact 0..=2) followed by up to two element bytes; the input may be cut short
    let bytes: [u8; 3] = [vk::any_u8(), vk::any_u8(), vk::any_u8()];
    vk::assume(bytes[0] == 0 || bytes[0] == 4 || bytes[0] == 8);
    let len = vk::any_usize();
    vk::assume(len >= 1 && len <= 3);
    (bytes, len)
}

// ---- LinkedList<u8>: wire format, round trip, rejection of short input ------------------------------------------
fn linkedlist_small_body() {
    let (bytes, len) = two_bytes_input();
    let n = (bytes[0] >> 2) as usize;
    let mut inp: &[u8] = &bytes[..len];
    match <LinkedList<u8>>::decode(&mut inp) {
        Ok(l) => {
            assert!(len >= 1 + n, "accepted an input shorter than the announced elements");
            assert!(l.len() == n && inp.len() == len - 1 - n, "wrong element count or bytes consumed");
            let mut it = l.iter();
            if n >= 1 { assert!(*it.next().unwrap() == bytes[1], "first element differs"); }
            if n >= 2 { assert!(*it.next().unwrap() == bytes[2], "second element differs"); }
            let mut o = Buf::new();
            l.encode_to(&mut o);
            assert!(o.n == 1 + n, "encoded length differs");
            let mut i = 0;
            while i < 1 + n { assert!(o.b[i] == bytes[i], "LinkedList does not re-encode to the bytes it was decoded from"); i += 1; }
        }
        Err(_) => assert!(len < 1 + n, "rejected a complete valid encoding"),
    }
}
#[cfg(kani)] #[kani::proof] #[kani::unwind(5)] fn linkedlist_small() { linkedlist_small_body() }
#[cfg(all(not(kani), psc_verif_replay))] #[test] fn replay_linkedlist_small() { vk::load_replay(); linkedlist_small_body() }

// ---- VecDeque<u8> built by pushes at both ends (wrapped ring buffer) encodes like the Vec of its logical content ----
fn vecdeque_wrapped_body() {
    let a = vk::any_u8(); let b = vk::any_u8(); let c = vk::any_u8();
    let mut d: VecDeque<u8> = VecDeque::with_capacity(4);
    d.push_back(b); d.push_back(c); d.push_front(a);
    let mut o = Buf::new();
    d.encode_to(&mut o);
    assert!(o.n == 4 && o.b[0] == 12 && o.b[1] == a && o.b[2] == b && o.b[3] == c, "VecDeque encoding depends on the ring-buffer layout");
}
#[cfg(kani)] #[kani::proof] #[kani::unwind(6)] fn vecdeque_wrapped() { vecdeque_wrapped_body() }
#[cfg(all(not(kani), psc_verif_replay))] #[test] fn replay_vecdeque_wrapped() { vk::load_replay(); vecdeque_wrapped_body() }

// (BinaryHeap<u8> and String harnesses were tried: Vec<u8>::decode followed by heapify / UTF-8 validation exhausts the
// 10 GB CBMC budget even for one element; those two types stay not decided)

// ---- BTreeMap<u8,u8> with one entry / BTreeSet<u8> decode: wire format and round trip ----------------------------
fn btreemap_one_body() {
    let k = vk::any_u8(); let v = vk::any_u8();
    let mut m: BTreeMap<u8, u8> = BTreeMap::new();
    m.insert(k, v);
    let mut o = Buf::new();
    m.encode_to(&mut o);
    assert!(o.n == 3 && o.b[0] == 4 && o.b[1] == k && o.b[2] == v, "BTreeMap entry is not encoded as count, key, value");
    let mut inp: &[u8] = &o.b[..3];
    match <BTreeMap<u8, u8>>::decode(&mut inp) {
        Ok(m2) => { assert!(m2.len() == 1 && m2.get(&k) == Some(&v) && inp.len() == 0, "BTreeMap round trip differs"); }
        Err(_) => assert!(false, "BTreeMap rejected its own encoding"),
    }
}
#[cfg(kani)] #[kani::proof] #[kani::unwind(6)] fn btreemap_one() { btreemap_one_body() }
#[cfg(all(not(kani), psc_verif_replay))] #[test] fn replay_btreemap_one() { vk::load_replay(); btreemap_one_body() }

// ---- arrays of primitives (bulk paths): bytes are the little-endian elements in order; decode inverts -----------
fn array_prims_body() {
    let a = vk::any_u32(); let b = vk::any_u32();
    let x: [u32; 2] = [a, b];
    let mut o = Buf::new();
    x.encode_to(&mut o);
    let la = a.to_le_bytes(); let lb = b.to_le_bytes();
    assert!(o.n == 8, "[u32;2] must encode to 8 bytes");
    let mut i = 0;
    while i < 4 { assert!(o.b[i] == la[i] && o.b[4 + i] == lb[i], "[u32;2] is not the concatenation of its little-endian elements"); i += 1; }
    let mut inp: &[u8] = &o.b[..8];
    match <[u32; 2]>::decode(&mut inp) { Ok(y) => assert!(y[0] == a && y[1] == b && inp.len() == 0, "[u32;2] round trip differs"), Err(_) => assert!(false) }
    let s = vk::any_u16() as i16; let t = vk::any_u16() as i16; let u = vk::any_u16() as i16;
    let z: [i16; 3] = [s, t, u];
    let mut o2 = Buf::new();
    z.encode_to(&mut o2);
    assert!(o2.n == 6 && o2.b[0] == s.to_le_bytes()[0] && o2.b[1] == s.to_le_bytes()[1] && o2.b[2] == t.to_le_bytes()[0] && o2.b[3] == t.to_le_bytes()[1] && o2.b[4] == u.to_le_bytes()[0] && o2.b[5] == u.to_le_bytes()[1], "[i16;3] bytes differ");
    let mut inp2: &[u8] = &o2.b[..6];
    match <[i16; 3]>::decode(&mut inp2) { Ok(y) => assert!(y[0] == s && y[1] == t && y[2] == u && inp2.len() == 0), Err(_) => assert!(false) }
    // short input is rejected, nothing is consumed on failure is not required, only rejection
    let mut short: &[u8] = &o.b[..7];
    assert!(<[u32; 2]>::decode(&mut short).is_err(), "[u32;2] accepted 7 bytes");
}
#[cfg(kani)] #[kani::proof] #[kani::unwind(10)] fn array_prims() { array_prims_body() }
#[cfg(all(not(kani), psc_verif_replay))] #[test] fn replay_array_prims() { vk::load_replay(); array_prims_body() }
