// Kani harnesses hosted in src/compact.rs (child module: reaches PrefixInput, ArrayVecWrapper)
use super::*;
use crate::{Compact, Decode, Encode, Input, Output};
include!("/verif/kani/vk.rs");

pub struct Buf { pub b: [u8; 24], pub n: usize }
impl Buf { pub fn new() -> Self { Buf { b: [0; 24], n: 0 } } }
impl Output for Buf {
    fn write(&mut self, bytes: &[u8]) {
        let l = bytes.len();
        assert!(self.n + l <= 24);
        let mut i = 0;
        while i < l { self.b[self.n + i] = bytes[i]; i += 1; }
        self.n += l;
    }
}

// ---- closes the assumed contract of the R14 wrapper `uN_leading_zeros` (verus/50_compact.py), full domain ----
fn leading_zeros_u64_body() {
    let x: u64 = vk::any_u64();
    let r = x.leading_zeros();
    assert!(r <= 64);
    assert!((x == 0) == (r == 64));
    if x != 0 {
        let k = 8 - r / 8;            // bytes needed
        assert!(k >= 1 && k <= 8);
        assert!(x >> (8 * (k - 1)) != 0);          // x >= 256^(k-1)
        assert!(k == 8 || x >> (8 * k) == 0);      // x < 256^k
    }
}
#[cfg(kani)] #[kani::proof] fn leading_zeros_u64() { leading_zeros_u64_body() }
#[cfg(all(not(kani), psc_verif_replay))] #[test] fn replay_leading_zeros_u64() { vk::load_replay(); leading_zeros_u64_body() }

fn leading_zeros_u128_body() {
    let x: u128 = vk::any_u128();
    let r = x.leading_zeros();
    assert!(r <= 128);
    assert!((x == 0) == (r == 128));
    if x != 0 {
        let k = 16 - r / 8;
        assert!(k >= 1 && k <= 16);
        assert!(x >> (8 * (k - 1)) != 0);
        assert!(k == 16 || x >> (8 * k) == 0);
    }
}
#[cfg(kani)] #[kani::proof] fn leading_zeros_u128() { leading_zeros_u128_body() }
#[cfg(all(not(kani), psc_verif_replay))] #[test] fn replay_leading_zeros_u128() { vk::load_replay(); leading_zeros_u128_body() }

// ---- CompactRef::using_encoded goes through ArrayVecWrapper (unsafe set_len): same bytes as encode_to, full domain ----
macro_rules! using_encoded_harness {
    ($body:ident, $proof:ident, $replay:ident, $t:ty, $any:ident, $unw:expr) => {
        fn $body() {
            let x: $t = vk::$any();
            let mut o = Buf::new();
            Compact(x).encode_to(&mut o);
            let n = o.n;
            let b = o.b;
            Compact(x).using_encoded(|s| {
                assert!(s.len() == n, "using_encoded length differs from encode_to");
                let mut i = 0;
                while i < n { assert!(s[i] == b[i], "using_encoded bytes differ from encode_to"); i += 1; }
            });
            assert!(<Compact<$t> as crate::CompactLen<$t>>::compact_len(&x) == n);
        }
        #[cfg(kani)] #[kani::proof] #[kani::unwind($unw)] fn $proof() { $body() }
        #[cfg(all(not(kani), psc_verif_replay))] #[test] fn $replay() { vk::load_replay(); $body() }
    };
}
using_encoded_harness!(using_encoded_u8_body, using_encoded_u8, replay_using_encoded_u8, u8, any_u8, 4);
using_encoded_harness!(using_encoded_u16_body, using_encoded_u16, replay_using_encoded_u16, u16, any_u16, 6);
using_encoded_harness!(using_encoded_u32_body, using_encoded_u32, replay_using_encoded_u32, u32, any_u32, 7);
using_encoded_harness!(using_encoded_u64_body, using_encoded_u64, replay_using_encoded_u64, u64, any_u64, 11);
using_encoded_harness!(using_encoded_u128_body, using_encoded_u128, replay_using_encoded_u128, u128, any_u128, 19);

// ---- PrefixInput::remaining_len (iterator adapter `prefix.iter().count()`): exact for every prefix state ----
fn prefix_remaining_len_body() {
    let bytes: [u8; 4] = [vk::any_u8(), vk::any_u8(), vk::any_u8(), vk::any_u8()];
    let len = vk::any_usize();
    vk::assume(len <= 4);
    let has_prefix = vk::any_bool();
    let p = vk::any_u8();
    let mut inner: &[u8] = &bytes[..len];
    let mut pi = PrefixInput { prefix: if has_prefix { Some(p) } else { None }, input: &mut inner };
    let r = pi.remaining_len();
    match r {
        Ok(Some(n)) => assert!(n == len + (if has_prefix { 1 } else { 0 })),
        _ => assert!(false, "PrefixInput::remaining_len must report the exact length over a slice"),
    }
    // and it must not consume anything
    assert!(pi.prefix.is_some() == has_prefix);
}
#[cfg(kani)] #[kani::proof] #[kani::unwind(6)] fn prefix_remaining_len() { prefix_remaining_len_body() }
#[cfg(all(not(kani), psc_verif_replay))] #[test] fn replay_prefix_remaining_len() { vk::load_replay(); prefix_remaining_len_body() }

// ---- C03/C04: the narrow compact decoders against an independent recogniser, every input of up to 5 bytes -----------------
/// canonical compact recogniser over u64 arithmetic: Some((value, bytes used)) iff `b` starts with the canonical form of a
/// value below 2^32 (the 5-byte mode is the only big-integer mode whose value fits)
fn spec_compact_narrow(b: &[u8]) -> Option<(u64, usize)> {
    if b.len() == 0 { return None; }
    let p = b[0];
    match p & 3 {
        0 => Some(((p >> 2) as u64, 1)),
        1 => { if b.len() < 2 { return None; } let v = ((p as u64) | ((b[1] as u64) << 8)) >> 2; if v >= 64 { Some((v, 2)) } else { None } }
        2 => { if b.len() < 4 { return None; } let v = ((p as u64) | ((b[1] as u64) << 8) | ((b[2] as u64) << 16) | ((b[3] as u64) << 24)) >> 2; if v >= (1 << 14) { Some((v, 4)) } else { None } }
        _ => { if p != 3 || b.len() < 5 { return None; } let v = (b[1] as u64) | ((b[2] as u64) << 8) | ((b[3] as u64) << 16) | ((b[4] as u64) << 24); if v >= (1 << 30) { Some((v, 5)) } else { None } }
    }
}
macro_rules! compact_decode_harness {
    ($body:ident, $proof:ident, $replay:ident, $t:ty, $max:expr) => {
        fn $body() {
            let bytes: [u8; 5] = [vk::any_u8(), vk::any_u8(), vk::any_u8(), vk::any_u8(), vk::any_u8()];
            let len = vk::any_usize();
            vk::assume(len <= 5);
            let mut inp: &[u8] = &bytes[..len];
            let r = <Compact<$t>>::decode(&mut inp);
            // a prefix byte announcing a wider big-integer form can only be canonical for values >= 2^32: out of range for
            // every type checked here, and it needs more than 5 bytes anyway
            let expect = match spec_compact_narrow(&bytes[..len]) { Some((v, n)) if v <= ($max as u64) => Some((v, n)), _ => None };
            match (r, expect) {
                (Ok(Compact(x)), Some((v, n))) => assert!(x as u64 == v && inp.len() == len - n, "compact decoder returned a different value or consumed a different number of bytes"),
                (Err(_), None) => {}
                (Ok(_), None) => assert!(false, "compact decoder accepted a non-canonical, over-wide or truncated encoding"),
                (Err(_), Some(_)) => assert!(false, "compact decoder rejected a canonical in-range encoding"),
            }
        }
        #[cfg(kani)] #[kani::proof] #[kani::unwind(8)] fn $proof() { $body() }
        #[cfg(all(not(kani), psc_verif_replay))] #[test] fn $replay() { vk::load_replay(); $body() }
    };
}
compact_decode_harness!(compact_decode_u8_body, compact_decode_u8, replay_compact_decode_u8, u8, u8::MAX);
compact_decode_harness!(compact_decode_u16_body, compact_decode_u16, replay_compact_decode_u16, u16, u16::MAX);
compact_decode_harness!(compact_decode_u32_body, compact_decode_u32, replay_compact_decode_u32, u32, u32::MAX);
