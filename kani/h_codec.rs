// Kani harnesses hosted in src/codec.rs (child module: reaches private items of `codec`)
use super::*;
use crate::{Decode, Encode, Error, Input, Output};
use crate::alloc::{boxed::Box, collections::BTreeSet, vec::Vec};
include!("/verif/kani/vk.rs");

pub struct Buf { pub b: [u8; 40], pub n: usize }
impl Buf { pub fn new() -> Self { Buf { b: [0; 40], n: 0 } } }
impl Output for Buf {
    fn write(&mut self, bytes: &[u8]) {
        let l = bytes.len();
        assert!(self.n + l <= 40);
        let mut i = 0;
        while i < l { self.b[self.n + i] = bytes[i]; i += 1; }
        self.n += l;
    }
}

// ---- closes the assumed contracts of the R14 wrappers `T_to_le_bytes` / `T_from_le_bytes` (verus/30_prims.py) ----
// le(x, n)[i] == (x / 256^i) % 256 == (x >> 8i) as u8 ; two's complement for signed types.  Full domain, loops bounded by width.
macro_rules! le_harness {
    ($body:ident, $proof:ident, $replay:ident, $t:ty, $u:ty, $any:ident, $n:expr) => {
        fn $body() {
            let u: $u = vk::$any();
            let x = u as $t;
            let b = x.to_le_bytes();
            let mut i = 0;
            while i < $n { assert!(b[i] == ((u >> (8 * i)) as u8), "to_le_bytes is not little-endian"); i += 1; }
            assert!(<$t>::from_le_bytes(b) == x, "from_le_bytes does not invert to_le_bytes");
            // the default `encode_to` (closure capturing &mut dest, assumed in Verus) writes exactly these bytes
            let mut o = Buf::new();
            x.encode_to(&mut o);
            assert!(o.n == $n, "default encode_to wrote a different number of bytes");
            let mut j = 0;
            while j < $n { assert!(o.b[j] == b[j], "default encode_to bytes differ from using_encoded"); j += 1; }
            // decode of those bytes gives the value back
            let mut inp: &[u8] = &b[..];
            match <$t>::decode(&mut inp) { Ok(y) => assert!(y == x && inp.len() == 0), Err(_) => assert!(false) }
        }
        #[cfg(kani)] #[kani::proof] #[kani::unwind(18)] fn $proof() { $body() }
        #[cfg(all(not(kani), psc_verif_replay))] #[test] fn $replay() { vk::load_replay(); $body() }
    };
}
le_harness!(le_u16_body, le_u16, replay_le_u16, u16, u16, any_u16, 2);
le_harness!(le_u32_body, le_u32, replay_le_u32, u32, u32, any_u32, 4);
le_harness!(le_u64_body, le_u64, replay_le_u64, u64, u64, any_u64, 8);
le_harness!(le_u128_body, le_u128, replay_le_u128, u128, u128, any_u128, 16);
le_harness!(le_i16_body, le_i16, replay_le_i16, i16, u16, any_u16, 2);
le_harness!(le_i32_body, le_i32, replay_le_i32, i32, u32, any_u32, 4);
le_harness!(le_i64_body, le_i64, replay_le_i64, i64, u64, any_u64, 8);
le_harness!(le_i128_body, le_i128, replay_le_i128, i128, u128, any_u128, 16);
le_harness!(le_u8_body, le_u8, replay_le_u8, u8, u8, any_u8, 1);
le_harness!(le_i8_body, le_i8, replay_le_i8, i8, u8, any_u8, 1);

// floats: encoding is the little-endian IEEE-754 bit pattern; decode is bit-exact (all bit patterns incl. NaNs)
fn le_f32_body() {
    let bits: u32 = vk::any_u32();
    let x = f32::from_bits(bits);
    let mut o = Buf::new();
    x.encode_to(&mut o);
    assert!(o.n == 4);
    let mut i = 0;
    while i < 4 { assert!(o.b[i] == ((bits >> (8 * i)) as u8)); i += 1; }
    let mut inp: &[u8] = &o.b[..4];
    match f32::decode(&mut inp) { Ok(y) => assert!(y.to_bits() == bits), Err(_) => assert!(false) }
}
#[cfg(kani)] #[kani::proof] #[kani::unwind(6)] fn le_f32() { le_f32_body() }
#[cfg(all(not(kani), psc_verif_replay))] #[test] fn replay_le_f32() { vk::load_replay(); le_f32_body() }
fn le_f64_body() {
    let bits: u64 = vk::any_u64();
    let x = f64::from_bits(bits);
    let mut o = Buf::new();
    x.encode_to(&mut o);
    assert!(o.n == 8);
    let mut i = 0;
    while i < 8 { assert!(o.b[i] == ((bits >> (8 * i)) as u8)); i += 1; }
    let mut inp: &[u8] = &o.b[..8];
    match f64::decode(&mut inp) { Ok(y) => assert!(y.to_bits() == bits), Err(_) => assert!(false) }
}
#[cfg(kani)] #[kani::proof] #[kani::unwind(10)] fn le_f64() { le_f64_body() }
#[cfg(all(not(kani), psc_verif_replay))] #[test] fn replay_le_f64() { vk::load_replay(); le_f64_body() }

// size facts assumed by verus/75_mel.py::size_of_facts (compile-time constants)
fn size_of_facts_body() {
    use core::num::*;
    assert!(core::mem::size_of::<bool>() == 1);
    assert!(core::mem::size_of::<NonZeroU8>() == 1 && core::mem::size_of::<NonZeroU16>() == 2 && core::mem::size_of::<NonZeroU32>() == 4);
    assert!(core::mem::size_of::<NonZeroU64>() == 8 && core::mem::size_of::<NonZeroU128>() == 16);
    assert!(core::mem::size_of::<NonZeroI8>() == 1 && core::mem::size_of::<NonZeroI16>() == 2 && core::mem::size_of::<NonZeroI32>() == 4);
    assert!(core::mem::size_of::<NonZeroI64>() == 8 && core::mem::size_of::<NonZeroI128>() == 16);
    // 128-bit NonZero::new zero test (verus/40_basic.py nz_new_u128 / nz_new_i128)
    let x: u128 = vk::any_u128();
    match NonZeroU128::new(x) { Some(v) => assert!(x != 0 && v.get() == x), None => assert!(x == 0) }
    let y = x as i128;
    match NonZeroI128::new(y) { Some(v) => assert!(y != 0 && v.get() == y), None => assert!(y == 0) }
}
#[cfg(kani)] #[kani::proof] fn size_of_facts() { size_of_facts_body() }
#[cfg(all(not(kani), psc_verif_replay))] #[test] fn replay_size_of_facts() { vk::load_replay(); size_of_facts_body() }

// ---- bulk (transmute) paths == element-wise, bounded length ------------------------------------------------
macro_rules! bulk_harness {
    ($body:ident, $proof:ident, $replay:ident, $t:ty, $any:ident, $n:expr, $sz:expr) => {
        fn $body() {
            let len = vk::any_usize();
            vk::assume(len <= $n);
            let mut v: Vec<$t> = Vec::new();
            let mut i = 0;
            while i < len { v.push(vk::$any() as $t); i += 1; }
            // bulk encode of the slice
            let mut o = Buf::new();
            encode_slice_no_len(&v[..], &mut o);
            // element-wise reference
            let mut r = Buf::new();
            let mut j = 0;
            while j < len { v[j].encode_to(&mut r); j += 1; }
            assert!(o.n == r.n && o.n == len * $sz, "bulk encode length differs from element-wise");
            let mut k = 0;
            while k < o.n { assert!(o.b[k] == r.b[k], "bulk encode bytes differ from element-wise"); k += 1; }
            // bulk decode of exactly those bytes gives the elements back and consumes everything
            let mut inp: &[u8] = &o.b[..o.n];
            match decode_vec_with_len::<$t, _>(&mut inp, len) {
                Ok(w) => {
                    assert!(w.len() == len && inp.len() == 0);
                    let mut m = 0;
                    while m < len { assert!(w[m] == v[m], "bulk decode differs from the encoded elements"); m += 1; }
                }
                Err(_) => assert!(false, "bulk decode rejected a valid encoding"),
            }
            // one byte short must fail
            if o.n > 0 {
                let mut short: &[u8] = &o.b[..o.n - 1];
                assert!(decode_vec_with_len::<$t, _>(&mut short, len).is_err());
            }
        }
        #[cfg(kani)] #[kani::proof] #[kani::unwind(34)] fn $proof() { $body() }
        #[cfg(all(not(kani), psc_verif_replay))] #[test] fn $replay() { vk::load_replay(); $body() }
    };
}
// (instances with a symbolic length -- bulk_u8 (<= 3), bulk_i32 (<= 2) -- exceed 10 GB in CBMC and are no longer registered)

// decode half with a concrete length:
// concrete length, symbolic content, `Vec<T>::decode` from count byte to last element byte
macro_rules! bulk_dec_harness {
    ($body:ident, $proof:ident, $replay:ident, $t:ty, $n:expr, $sz:expr) => {
        fn $body() {
            let mut bytes = [0u8; 1 + $n * $sz + 1];
            bytes[0] = ($n as u8) << 2;
            let mut i = 1;
            while i < 1 + $n * $sz + 1 { bytes[i] = vk::any_u8(); i += 1; }
            let mut inp: &[u8] = &bytes[..];
            match <Vec<$t>>::decode(&mut inp) {
                Ok(v) => {
                    assert!(v.len() == $n && inp.len() == 1, "bulk decode returned a different number of elements or consumed a different number of bytes");
                    let mut k = 0;
                    while k < $n {
                        let mut e = [0u8; $sz];
                        let mut j = 0;
                        while j < $sz { e[j] = bytes[1 + k * $sz + j]; j += 1; }
                        assert!(v[k] == <$t>::from_le_bytes(e), "bulk decode element differs from its little-endian bytes");
                        k += 1;
                    }
                }
                Err(_) => assert!(false, "bulk decode rejected a complete encoding"),
            }
            let mut short: &[u8] = &bytes[..$n * $sz];
            assert!(<Vec<$t>>::decode(&mut short).is_err(), "bulk decode accepted an input one byte short");
        }
        #[cfg(kani)] #[kani::proof] #[kani::unwind(12)] fn $proof() { $body() }
        #[cfg(all(not(kani), psc_verif_replay))] #[test] fn $replay() { vk::load_replay(); $body() }
    };
}
bulk_dec_harness!(bulk_dec_u8_body, bulk_dec_u8, replay_bulk_dec_u8, u8, 2, 1);
bulk_dec_harness!(bulk_dec_u16_body, bulk_dec_u16, replay_bulk_dec_u16, u16, 2, 2);
bulk_dec_harness!(bulk_dec_i32_body, bulk_dec_i32, replay_bulk_dec_i32, i32, 1, 4);

// ---- C10: construct/drop ledger over the unsafe decode sites, every failure position symbolic ---------------
static mut LIVE: i32 = 0;
pub struct D(u8);
impl Drop for D { fn drop(&mut self) { unsafe { LIVE -= 1; } } }
impl Decode for D {
    fn decode<I: Input>(input: &mut I) -> Result<Self, Error> {
        let b = input.read_byte()?;
        if b >= 0x80 { return Err("bad element".into()); }
        unsafe { LIVE += 1; }
        Ok(D(b))
    }
}
fn live() -> i32 { unsafe { LIVE } }
fn reset() { unsafe { LIVE = 0; } }

fn drop_array3_body() {
    reset();
    let bytes: [u8; 3] = [vk::any_u8(), vk::any_u8(), vk::any_u8()];
    let len = vk::any_usize();
    vk::assume(len <= 3);
    let mut inp: &[u8] = &bytes[..len];
    match <[D; 3]>::decode(&mut inp) {
        Ok(a) => {
            assert!(live() == 3, "Ok must hand over 3 live elements");
            assert!(a[0].0 == bytes[0] && a[1].0 == bytes[1] && a[2].0 == bytes[2]);
            drop(a);
            assert!(live() == 0, "dropping the value must release every element exactly once");
        }
        Err(_) => {
            assert!(live() == 0, "failed decode leaked or double-dropped an element");
            assert!(len < 3 || bytes[0] >= 0x80 || bytes[1] >= 0x80 || bytes[2] >= 0x80);
        }
    }
}
#[cfg(kani)] #[kani::proof] #[kani::unwind(5)] fn drop_array3() { drop_array3_body() }
#[cfg(all(not(kani), psc_verif_replay))] #[test] fn replay_drop_array3() { vk::load_replay(); drop_array3_body() }

fn drop_box_body() {
    reset();
    let bytes: [u8; 1] = [vk::any_u8()];
    let len = vk::any_usize();
    vk::assume(len <= 1);
    let mut inp: &[u8] = &bytes[..len];
    match <Box<D>>::decode(&mut inp) {
        Ok(b) => { assert!(live() == 1 && b.0 == bytes[0]); drop(b); assert!(live() == 0); }
        Err(_) => { assert!(live() == 0); assert!(len < 1 || bytes[0] >= 0x80); }
    }
}
#[cfg(kani)] #[kani::proof] #[kani::unwind(4)] fn drop_box() { drop_box_body() }
#[cfg(all(not(kani), psc_verif_replay))] #[test] fn replay_drop_box() { vk::load_replay(); drop_box_body() }

fn drop_box_array2_body() {
    reset();
    let bytes: [u8; 2] = [vk::any_u8(), vk::any_u8()];
    let len = vk::any_usize();
    vk::assume(len <= 2);
    let mut inp: &[u8] = &bytes[..len];
    match <Box<[D; 2]>>::decode(&mut inp) {
        Ok(b) => { assert!(live() == 2); drop(b); assert!(live() == 0); }
        Err(_) => { assert!(live() == 0); }
    }
}
#[cfg(kani)] #[kani::proof] #[kani::unwind(5)] fn drop_box_array2() { drop_box_array2_body() }
#[cfg(all(not(kani), psc_verif_replay))] #[test] fn replay_drop_box_array2() { vk::load_replay(); drop_box_array2_body() }

fn drop_option_box_body() {
    reset();
    let bytes: [u8; 2] = [vk::any_u8(), vk::any_u8()];
    let len = vk::any_usize();
    vk::assume(len <= 2);
    let mut inp: &[u8] = &bytes[..len];
    match <Option<Box<D>>>::decode(&mut inp) {
        Ok(b) => { assert!(live() == (if b.is_some() { 1 } else { 0 })); drop(b); assert!(live() == 0); }
        Err(_) => { assert!(live() == 0); }
    }
}
#[cfg(kani)] #[kani::proof] #[kani::unwind(5)] fn drop_option_box() { drop_option_box_body() }
#[cfg(all(not(kani), psc_verif_replay))] #[test] fn replay_drop_option_box() { vk::load_replay(); drop_option_box_body() }

fn drop_vec_array_body() {
    reset();
    // Vec<[D;2]> with a symbolic count byte: growing collection of in-place decoded arrays
    let bytes: [u8; 5] = [vk::any_u8(), vk::any_u8(), vk::any_u8(), vk::any_u8(), vk::any_u8()];
    vk::assume(bytes[0] <= 8);      // compact count 0..=2
    let len = vk::any_usize();
    vk::assume(len <= 5);
    let mut inp: &[u8] = &bytes[..len];
    match <Vec<[D; 2]>>::decode(&mut inp) {
        Ok(v) => { assert!(live() == 2 * v.len() as i32); drop(v); assert!(live() == 0); }
        Err(_) => { assert!(live() == 0, "failed Vec<[D;2]> decode leaked or double-dropped"); }
    }
}
#[cfg(kani)] #[kani::proof] #[kani::unwind(7)] fn drop_vec_array() { drop_vec_array_body() }
#[cfg(all(not(kani), psc_verif_replay))] #[test] fn replay_drop_vec_array() { vk::load_replay(); drop_vec_array_body() }

// ---- C06: a set encodes in sorted order whatever the insertion order (bounded: 3 elements) -------------------
fn btreeset_order_body() {
    let a = vk::any_u8(); let b = vk::any_u8();
    let mut s1 = BTreeSet::new(); s1.insert(a); s1.insert(b);
    let mut s2 = BTreeSet::new(); s2.insert(b); s2.insert(a);
    let mut o1 = Buf::new(); s1.encode_to(&mut o1);
    let mut o2 = Buf::new(); s2.encode_to(&mut o2);
    assert!(o1.n == o2.n);
    let mut i = 0;
    while i < o1.n { assert!(o1.b[i] == o2.b[i], "set encoding depends on insertion order"); i += 1; }
    assert!(o1.b[0] as usize == 4 * (o1.n - 1));
    if o1.n == 3 { assert!(o1.b[1] < o1.b[2], "set elements are not encoded in ascending order"); }
}
#[cfg(kani)] #[kani::proof] #[kani::unwind(6)] fn btreeset_order() { btreeset_order_body() }
#[cfg(all(not(kani), psc_verif_replay))] #[test] fn replay_btreeset_order() { vk::load_replay(); btreeset_order_body() }

// ---- C08: IoReader over a reader that delivers arbitrary short chunks decodes like the plain slice ------------
pub struct Chunky<'a> { data: &'a [u8], pos: usize, chunk: usize }
impl<'a> std::io::Read for Chunky<'a> {
    fn read(&mut self, buf: &mut [u8]) -> std::io::Result<usize> {
        let left = self.data.len() - self.pos;
        let mut n = if buf.len() < left { buf.len() } else { left };
        if n > self.chunk { n = self.chunk; }
        let mut i = 0;
        while i < n { buf[i] = self.data[self.pos + i]; i += 1; }
        self.pos += n;
        Ok(n)
    }
}
fn ioreader_chunked_body() {
    let bytes: [u8; 5] = [vk::any_u8(), vk::any_u8(), vk::any_u8(), vk::any_u8(), vk::any_u8()];
    let len = vk::any_usize();
    vk::assume(len <= 5);
    let chunk = vk::any_usize();
    vk::assume(chunk >= 1 && chunk <= 5);
    let mut sl: &[u8] = &bytes[..len];
    let a = <(u32, u8)>::decode(&mut sl);
    let mut rd = IoReader(Chunky { data: &bytes[..len], pos: 0, chunk });
    let b = <(u32, u8)>::decode(&mut rd);
    match (a, b) {
        (Ok(x), Ok(y)) => { assert!(x == y, "IoReader over a chunked reader decoded a different value than the slice"); assert!(rd.0.pos == len - sl.len(), "different number of bytes consumed"); }
        (Err(_), Err(_)) => {}
        _ => assert!(false, "IoReader over a chunked reader and the slice disagree on success"),
    }
}
#[cfg(kani)] #[kani::proof] #[kani::unwind(8)] fn ioreader_chunked() { ioreader_chunked_body() }
#[cfg(all(not(kani), psc_verif_replay))] #[test] fn replay_ioreader_chunked() { vk::load_replay(); ioreader_chunked_body() }

// ---- C10: zero-sized element type with a Drop impl (a token): the guards must not key on size ----------------
static mut LIVE_Z: i32 = 0;
pub struct Z;
impl Drop for Z { fn drop(&mut self) { unsafe { LIVE_Z -= 1; } } }
impl Decode for Z {
    fn decode<I: Input>(input: &mut I) -> Result<Self, Error> {
        let b = input.read_byte()?;
        if b >= 0x80 { return Err("bad token".into()); }
        unsafe { LIVE_Z += 1; }
        Ok(Z)
    }
}
fn live_z() -> i32 { unsafe { LIVE_Z } }
fn drop_array3_zst_body() {
    unsafe { LIVE_Z = 0; }
    let bytes: [u8; 3] = [vk::any_u8(), vk::any_u8(), vk::any_u8()];
    let len = vk::any_usize();
    vk::assume(len <= 3);
    let mut inp: &[u8] = &bytes[..len];
    match <[Z; 3]>::decode(&mut inp) {
        Ok(a) => { assert!(live_z() == 3, "Ok must hand over 3 live tokens"); drop(a); assert!(live_z() == 0, "dropping the array must release every token exactly once"); }
        Err(_) => { assert!(live_z() == 0, "failed decode of [Z;3] (zero-sized, Drop) leaked or double-dropped a token"); }
    }
}
#[cfg(kani)] #[kani::proof] #[kani::unwind(5)] fn drop_array3_zst() { drop_array3_zst_body() }
#[cfg(all(not(kani), psc_verif_replay))] #[test] fn replay_drop_array3_zst() { vk::load_replay(); drop_array3_zst_body() }

// ---- C10: derived decode_into of a repr(transparent) struct with a second (zero-sized, fallible) field --------
/// zero-sized marker whose encoding is one tag byte that must be < 0x80
pub struct Tag;
impl Decode for Tag {
    fn decode<I: Input>(input: &mut I) -> Result<Self, Error> {
        if input.read_byte()? >= 0x80 { return Err("bad tag".into()); }
        Ok(Tag)
    }
}
#[derive(crate::Decode)]
#[codec(crate = crate)]
#[repr(transparent)]
pub struct TW(D, Tag);
fn drop_transparent_box_body() {
    reset();
    let bytes: [u8; 2] = [vk::any_u8(), vk::any_u8()];
    let len = vk::any_usize();
    vk::assume(len <= 2);
    let mut inp: &[u8] = &bytes[..len];
    match <Box<TW>>::decode(&mut inp) {
        Ok(b) => { assert!(live() == 1 && (b.0).0 == bytes[0]); drop(b); assert!(live() == 0); }
        Err(_) => { assert!(live() == 0, "failed in-place decode of a transparent struct leaked or double-dropped its first field"); }
    }
}
#[cfg(kani)] #[kani::proof] #[kani::unwind(5)] fn drop_transparent_box() { drop_transparent_box_body() }
#[cfg(all(not(kani), psc_verif_replay))] #[test] fn replay_drop_transparent_box() { vk::load_replay(); drop_transparent_box_body() }
fn drop_transparent_array2_body() {
    reset();
    let bytes: [u8; 4] = [vk::any_u8(), vk::any_u8(), vk::any_u8(), vk::any_u8()];
    let len = vk::any_usize();
    vk::assume(len <= 4);
    let mut inp: &[u8] = &bytes[..len];
    match <[TW; 2]>::decode(&mut inp) {
        Ok(a) => { assert!(live() == 2); drop(a); assert!(live() == 0); }
        Err(_) => { assert!(live() == 0, "failed decode of [TW;2] leaked or double-dropped"); }
    }
}
#[cfg(kani)] #[kani::proof] #[kani::unwind(5)] fn drop_transparent_array2() { drop_transparent_array2_body() }
#[cfg(all(not(kani), psc_verif_replay))] #[test] fn replay_drop_transparent_array2() { vk::load_replay(); drop_transparent_array2_body() }

// ---- C18: skip agrees with decode (success, bytes consumed) on every byte string up to the bound -------------
fn skip_vs_decode<T: Decode, const L: usize>() {
    let mut bytes = [0u8; L];
    let mut i = 0;
    while i < L { bytes[i] = vk::any_u8(); i += 1; }
    let len = vk::any_usize();
    vk::assume(len <= L);
    let mut a: &[u8] = &bytes[..len];
    let mut b: &[u8] = &bytes[..len];
    let r1 = T::decode(&mut a);
    let r2 = T::skip(&mut b);
    assert!(r1.is_ok() == r2.is_ok(), "skip succeeds on an input that decode rejects, or the reverse");
    if r1.is_ok() { assert!(a.len() == b.len(), "skip consumed a different number of bytes than decode"); }
}
macro_rules! skip_harness {
    ($body:ident, $proof:ident, $replay:ident, $t:ty, $l:expr, $unw:expr) => {
        fn $body() { skip_vs_decode::<$t, $l>() }
        #[cfg(kani)] #[kani::proof] #[kani::unwind($unw)] fn $proof() { $body() }
        #[cfg(all(not(kani), psc_verif_replay))] #[test] fn $replay() { vk::load_replay(); $body() }
    };
}
skip_harness!(skip_array_bool3_body, skip_array_bool3, replay_skip_array_bool3, [bool; 3], 4, 7);
skip_harness!(skip_array_u16x2_body, skip_array_u16x2, replay_skip_array_u16x2, [u16; 2], 5, 7);
skip_harness!(skip_option_bool_body, skip_option_bool, replay_skip_option_bool, Option<bool>, 3, 6);
skip_harness!(skip_tuple_body, skip_tuple, replay_skip_tuple, (crate::Compact<u32>, bool), 6, 9);
skip_harness!(skip_result_body, skip_result, replay_skip_result, Result<bool, u16>, 4, 7);

// ---- C06/C16: a slice of holders of a primitive encodes like the slice of the primitives ---------------------
fn holders_in_slice_body() {
    let x = vk::any_u16(); let y = vk::any_u16();
    let plain: [u16; 2] = [x, y];
    let refs: [&u16; 2] = [&x, &y];
    let mut o1 = Buf::new(); plain[..].encode_to(&mut o1);
    let mut o2 = Buf::new(); refs[..].encode_to(&mut o2);
    let mut o3 = Buf::new(); refs.encode_to(&mut o3);
    assert!(o1.n == 5 && o2.n == 5 && o3.n == 4, "slice of references has a different encoded length");
    let mut i = 0;
    while i < 5 { assert!(o1.b[i] == o2.b[i], "[&u16] does not encode like [u16]"); i += 1; }
    let mut j = 0;
    while j < 4 { assert!(o1.b[1 + j] == o3.b[j], "[&u16; 2] does not encode like [u16; 2]"); j += 1; }
    assert!(refs[..].encoded_size() == 5, "encoded_size of [&u16] differs");
}
#[cfg(kani)] #[kani::proof] #[kani::unwind(8)] fn holders_in_slice() { holders_in_slice_body() }
#[cfg(all(not(kani), psc_verif_replay))] #[test] fn replay_holders_in_slice() { vk::load_replay(); holders_in_slice_body() }

// (a multi-chunk element-wise Vec decode harness -- 8 KiB elements, three items -- was tried for C02/C09 and exceeds the
// CBMC budget (900 s / 6 GB): the chunk loop is decided by Verus only, see verus/60_seq.rs.in)

// (a two-chunk Vec<[u8;8200]> harness with a fully concrete input was tried as well: CBMC needs > 10 GB for it)
