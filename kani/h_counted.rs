// Kani harnesses hosted in src/counted_input.rs
use super::*;
use crate::{Decode, Input};
include!("/verif/kani/vk.rs");

// ---- C19: the count moves by exactly the bytes delivered; a failed read adds nothing -------------------------
fn counted_read_body() {
    let bytes: [u8; 6] = [vk::any_u8(), vk::any_u8(), vk::any_u8(), vk::any_u8(), vk::any_u8(), vk::any_u8()];
    let len = vk::any_usize();
    vk::assume(len <= 6);
    let want = vk::any_usize();
    vk::assume(want <= 7);
    let mut inner: &[u8] = &bytes[..len];
    let mut c = CountedInput::new(&mut inner);
    let first = c.read_byte();
    let after_first = c.count();
    assert!(after_first == (if first.is_ok() { 1 } else { 0 }), "read_byte moved the count by something else than the bytes delivered");
    let mut into = [0u8; 7];
    let r = c.read(&mut into[..want]);
    let after = c.count();
    if r.is_ok() { assert!(after == after_first + want as u64, "successful read must add exactly the bytes read"); }
    else { assert!(after == after_first, "failed read must not change the count"); }
    // whole-value decode: count == bytes consumed from the inner input
    let mut inner2: &[u8] = &bytes[..len];
    let mut c2 = CountedInput::new(&mut inner2);
    let d = <(u8, u32)>::decode(&mut c2);
    let cnt = c2.count();
    if d.is_ok() { assert!(cnt == 5 && inner2.len() == len - 5, "count differs from the bytes consumed by a successful decode"); }
    else { assert!(cnt == (if len >= 1 { 1 } else { 0 }), "after a failed decode the count differs from the bytes delivered"); }
}
#[cfg(kani)] #[kani::proof] #[kani::unwind(9)] fn counted_read() { counted_read_body() }
#[cfg(all(not(kani), psc_verif_replay))] #[test] fn replay_counted_read() { vk::load_replay(); counted_read_body() }
