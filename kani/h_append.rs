// Kani harnesses for encode_append.rs (child module of `encode_append`: reaches the private append_or_new_impl)
use super::*;
use crate::{Compact, Encode};
include!("/verif/kani/vk.rs");

/// iterator whose reported length is an arbitrary usize and which yields `actual` unit items
pub struct UnitIter { reported: usize, actual: usize }
impl Iterator for UnitIter {
    type Item = ();
    fn next(&mut self) -> Option<()> { if self.actual == 0 { None } else { self.actual -= 1; Some(()) } }
    fn size_hint(&self) -> (usize, Option<usize>) { (self.reported, Some(self.reported)) }
}
impl ExactSizeIterator for UnitIter { fn len(&self) -> usize { self.reported } }

fn spec_compact_u32(x: u32) -> ([u8; 5], usize) {
    if x < 64 { ([(x as u8) << 2, 0, 0, 0, 0], 1) }
    else if x < (1 << 14) { let v = ((x as u16) << 2) | 1; ([v as u8, (v >> 8) as u8, 0, 0, 0], 2) }
    else if x < (1 << 30) { let v = (x << 2) | 2; ([v as u8, (v >> 8) as u8, (v >> 16) as u8, (v >> 24) as u8, 0], 4) }
    else { ([3, x as u8, (x >> 8) as u8, (x >> 16) as u8, (x >> 24) as u8], 5) }
}

/// C15, count logic: for every old count (any canonical Compact<u32> prefix) and every reported number of
/// zero-sized items, the result is Ok with prefix compact(old + n) exactly when old + n fits u32, else Err.
/// Complete in the counts (all u32 x all usize); items are `()` so there is no payload.
fn append_counts_body() {
    let old: u32 = vk::any_u32();
    let n: usize = vk::any_usize();
    let (pre, plen) = spec_compact_u32(old);
    let mut v: Vec<u8> = Vec::new();
    let mut i = 0;
    while i < plen { v.push(pre[i]); i += 1; }
    let r = append_or_new_impl::<(), _>(v, UnitIter { reported: n, actual: 0 });
    let fits = (n as u128) + (old as u128) <= u32::MAX as u128;
    match r {
        Ok(out) => {
            assert!(fits, "append returned Ok although old + n does not fit in u32");
            let (exp, elen) = spec_compact_u32(old.wrapping_add(n as u32));
            assert!(out.len() == elen);
            let mut j = 0;
            while j < elen { assert!(out[j] == exp[j]); j += 1; }
        }
        Err(_) => assert!(!fits, "append failed although the combined count is representable"),
    }
}
#[cfg(kani)]
#[kani::proof]
#[kani::unwind(7)]
fn append_counts() { append_counts_body() }
#[cfg(all(not(kani), psc_verif_replay))]
#[test]
fn replay_append_counts() { vk::load_replay(); append_counts_body() }


/// independent canonical Compact<u32> recogniser: Some((value, bytes used)) iff `b` starts with the canonical form
fn spec_decode_compact_u32(b: &[u8]) -> Option<(u32, usize)> {
    if b.len() == 0 { return None; }
    let p = b[0];
    match p & 3 {
        0 => Some(((p >> 2) as u32, 1)),
        1 => { if b.len() < 2 { return None; } let v = ((p as u32) | ((b[1] as u32) << 8)) >> 2; if v >= 64 { Some((v, 2)) } else { None } }
        2 => { if b.len() < 4 { return None; } let v = ((p as u32) | ((b[1] as u32) << 8) | ((b[2] as u32) << 16) | ((b[3] as u32) << 24)) >> 2; if v >= (1 << 14) { Some((v, 4)) } else { None } }
        _ => { if p != 3 || b.len() < 5 { return None; } let v = (b[1] as u32) | ((b[2] as u32) << 8) | ((b[3] as u32) << 16) | ((b[4] as u32) << 24); if v >= (1 << 30) { Some((v, 5)) } else { None } }
    }
}

/// C15, whole function on ARBITRARY existing bytes (empty, malformed, canonical prefix + payload) and any reported item count:
/// Ok(out) iff the input is empty or starts with a canonical count and the combined count fits u32; then
/// out == compact(old + n) ++ payload.  Existing bytes bounded to 5 (prefix + up to 4 payload bytes); zero-sized items.
fn append_any_prefix_body() {
    let bytes: [u8; 5] = [vk::any_u8(), vk::any_u8(), vk::any_u8(), vk::any_u8(), vk::any_u8()];
    let plen = vk::any_usize();
    vk::assume(plen <= 5);
    let n: usize = vk::any_usize();
    let mut v: Vec<u8> = Vec::new();
    let mut i = 0;
    while i < plen { v.push(bytes[i]); i += 1; }
    let r = append_or_new_impl::<(), _>(v, UnitIter { reported: n, actual: 0 });
    let expect: Option<(u32, usize)> = if plen == 0 { Some((0, 0)) } else { spec_decode_compact_u32(&bytes[..plen]) };
    match expect {
        None => assert!(r.is_err(), "append accepted existing bytes that do not start with a canonical count"),
        Some((old, used)) => {
            let fits = (n as u128) + (old as u128) <= u32::MAX as u128;
            match r {
                Err(_) => assert!(!fits, "append failed although the combined count is representable"),
                Ok(out) => {
                    assert!(fits, "append returned Ok although old + n does not fit in u32");
                    let (exp, elen) = spec_compact_u32(old.wrapping_add(n as u32));
                    assert!(out.len() == elen + (plen - used), "appended encoding has the wrong length");
                    let mut j = 0;
                    while j < elen { assert!(out[j] == exp[j], "count prefix is not compact(old + n)"); j += 1; }
                    let mut k = 0;
                    while k < plen - used { assert!(out[elen + k] == bytes[used + k], "existing payload was not preserved"); k += 1; }
                }
            }
        }
    }
}
#[cfg(kani)]
#[kani::proof]
#[kani::unwind(8)]
fn append_any_prefix() { append_any_prefix_body() }
#[cfg(all(not(kani), psc_verif_replay))]
#[test]
fn replay_append_any_prefix() { vk::load_replay(); append_any_prefix_body() }

/// C15, prefix-width jumps with concrete counts and a real payload (items are `u8`): the count prefix grows from 1 to 2, 2 to 4,
/// 1 to 4 and 4 to 5 bytes; the result must be compact(old + n) ++ old payload ++ new items, byte for byte.
fn append_jump_case(old_count: u32, n_new: usize, check_payload: bool) {
    // existing encoding: compact(old_count) followed by old_count payload bytes (only materialised for small counts)
    let (pre, plen) = spec_compact_u32(old_count);
    let mut v: Vec<u8> = Vec::new();
    let mut i = 0;
    while i < plen { v.push(pre[i]); i += 1; }
    if check_payload { let mut k = 0; while k < old_count as usize { v.push(0xA0 + (k as u8 & 7)); k += 1; } }
    let r = if check_payload { append_or_new_impl::<u8, _>(v, [0x5Au8].iter().copied()) } else { append_or_new_impl::<(), _>(v, UnitIter { reported: n_new, actual: 0 }) };
    let (exp, elen) = spec_compact_u32(old_count + n_new as u32);
    match r {
        Ok(out) => {
            let payload = if check_payload { old_count as usize + n_new } else { 0 };
            assert!(out.len() == elen + payload, "appended encoding has the wrong length after a prefix-width jump");
            let mut j = 0;
            while j < elen { assert!(out[j] == exp[j], "appended encoding has the wrong count prefix after a prefix-width jump"); j += 1; }
            if check_payload {
                assert!(out[elen] == 0xA0 && out[elen + old_count as usize - 1] == 0xA0 + ((old_count as u8 - 1) & 7), "old payload moved or overwritten by the wider prefix");
                assert!(out[elen + old_count as usize] == 0x5A, "appended item is not at the end");
            }
        }
        Err(_) => assert!(false, "append failed on a representable count"),
    }
}
fn append_jumps_body() {
    append_jump_case(63, 1, true);                 // 1 -> 2 byte prefix, payload shifted by one
    append_jump_case(0, 20000, false);             // 1 -> 4 bytes in one append
    append_jump_case((1 << 14) - 1, 1, false);     // 2 -> 4 bytes
    append_jump_case((1 << 30) - 1, 1, false);     // 4 -> 5 bytes
}
#[cfg(kani)] #[kani::proof] #[kani::unwind(70)] fn append_jumps() { append_jumps_body() }
#[cfg(all(not(kani), psc_verif_replay))] #[test] fn replay_append_jumps() { vk::load_replay(); append_jumps_body() }
