// Kani harnesses hosted in src/codec.rs: depth- and memory-limited decoding through the sites that are not under a
// Verus contract (Box::decode_wrapped is unsafe; BTreeMap/LinkedList decode go through iterator adapters).
// Only what C11 / C12 state is asserted: agreement with unlimited decoding, monotonicity in the limit, success when the
// limit covers the nesting / exceeds the heap bytes held, failure when it does not.
use super::*;
use crate::{Decode, DecodeLimit, DecodeWithMemLimit, Encode, Error, Input};
use crate::alloc::{boxed::Box, collections::{BTreeMap, LinkedList}, vec::Vec};
include!("/verif/kani/vk.rs");

// ---- C11: Box<Box<u8>> nests two heap levels -----------------------------------------------------------------
fn box_depth_body() {
    let bytes: [u8; 1] = [vk::any_u8()];
    let len = vk::any_usize();
    vk::assume(len <= 1);
    let l1 = vk::any_u32(); let l2 = vk::any_u32();
    vk::assume(l1 <= l2);
    let mut a: &[u8] = &bytes[..len];
    let mut b: &[u8] = &bytes[..len];
    let mut c: &[u8] = &bytes[..len];
    let plain = <Box<Box<u8>>>::decode(&mut a);
    let r1 = <Box<Box<u8>>>::decode_with_depth_limit(l1, &mut b);
    let r2 = <Box<Box<u8>>>::decode_with_depth_limit(l2, &mut c);
    if let Ok(v) = &r1 {
        assert!(matches!(&plain, Ok(p) if **p == **v), "depth-limited decode returned something else than unlimited decode");
        assert!(b.len() == a.len(), "depth-limited decode consumed a different number of bytes");
        assert!(r2.is_ok(), "depth-limited decoding is not monotone in the limit");
        assert!(l1 >= 2, "a value nested through two boxes decoded under a limit below 2");
    }
    if plain.is_ok() && l1 >= 2 { assert!(r1.is_ok(), "limit covers the nesting depth but decoding failed"); }
    if plain.is_err() { assert!(r1.is_err() && r2.is_err(), "limited decode accepted what unlimited decode rejects"); }
}
#[cfg(kani)] #[kani::proof] #[kani::unwind(4)] fn box_depth() { box_depth_body() }
#[cfg(all(not(kani), psc_verif_replay))] #[test] fn replay_box_depth() { vk::load_replay(); box_depth_body() }

// ---- C12: Box<u32> holds 4 heap bytes; Box<Box<u16>> holds a pointer and 2 bytes ---------------------------------
fn box_mem_body() {
    let bytes: [u8; 4] = [vk::any_u8(), vk::any_u8(), vk::any_u8(), vk::any_u8()];
    let l1 = vk::any_usize(); let l2 = vk::any_usize();
    vk::assume(l1 <= l2);
    let mut a: &[u8] = &bytes[..];
    let mut b: &[u8] = &bytes[..];
    let r1 = <Box<u32>>::decode_with_mem_limit(&mut a, l1);
    let r2 = <Box<u32>>::decode_with_mem_limit(&mut b, l2);
    if let Ok(v) = &r1 {
        assert!(**v == u32::from_le_bytes(bytes) && a.len() == 0, "memory-limited decode returned a different value");
        assert!(r2.is_ok(), "memory-limited decoding is not monotone in the limit");
        assert!(l1 > 4, "a boxed u32 (4 heap bytes) decoded under a limit of at most 4");
    }
    if l1 > 64 { assert!(r1.is_ok(), "a generous limit rejected a boxed u32"); }
    let mut c: &[u8] = &bytes[..2];
    let r3 = <Box<Box<u16>>>::decode_with_mem_limit(&mut c, l1);
    if r3.is_ok() { assert!(l1 > 2 + core::mem::size_of::<usize>(), "Box<Box<u16>> decoded under a limit not exceeding the heap bytes it holds"); }
    if l1 > 64 { assert!(r3.is_ok()); }
}
#[cfg(kani)] #[kani::proof] #[kani::unwind(6)] fn box_mem() { box_mem_body() }
#[cfg(all(not(kani), psc_verif_replay))] #[test] fn replay_box_mem() { vk::load_replay(); box_mem_body() }

// ---- C11/C12: LinkedList<u8> / BTreeMap<u8,u8> with at most one element ---------------------------------------------
fn list_limits_body() {
    let bytes: [u8; 2] = [vk::any_u8(), vk::any_u8()];
    vk::assume(bytes[0] == 0 || bytes[0] == 4);
    let n = (bytes[0] >> 2) as usize;
    let d = vk::any_u32();
    let mut a: &[u8] = &bytes[..1 + n];
    let r = <LinkedList<u8>>::decode_with_depth_limit(d, &mut a);
    if d >= 1 { assert!(matches!(&r, Ok(l) if l.len() == n) && a.len() == 0, "limit covers the single nesting level of a list but decoding failed or differs"); }
    if d == 0 { assert!(r.is_err(), "a list decoded under depth limit 0"); }
    let m = vk::any_usize();
    let mut b: &[u8] = &bytes[..1 + n];
    let r2 = <LinkedList<u8>>::decode_with_mem_limit(&mut b, m);
    if let Ok(l) = &r2 { assert!(l.len() == n && (n == 0 || m > n), "a list decoded under a limit not exceeding its element bytes"); }
    if m > 256 { assert!(r2.is_ok(), "a generous memory limit rejected a one-element list"); }
    if n == 0 && m > 0 { assert!(r2.is_ok(), "an empty list holds no heap data and must decode under every positive limit"); }
}
#[cfg(kani)] #[kani::proof] #[kani::unwind(5)] fn list_limits() { list_limits_body() }
#[cfg(all(not(kani), psc_verif_replay))] #[test] fn replay_list_limits() { vk::load_replay(); list_limits_body() }

// (BTreeMap<u8,u8> limit harnesses were tried: a single limited decode of a one-entry map exceeds the CBMC budget of 900 s;
// the map/set sites are covered by list_limits' sibling code path only in so far as they share the macro-free structure -- not decided)
