// Nondeterminism shim shared by all harness files (include!d).  Under Kani every call is one `kani::any()`;
// under `--cfg psc_verif_replay` the values recorded from Kani's concrete playback are popped in order, so the
// same harness body runs natively against the real code.
#[allow(dead_code)]
pub(crate) mod vk {
    #[cfg(kani)]
    pub fn any_u8() -> u8 { kani::any() }
    #[cfg(kani)]
    pub fn any_u16() -> u16 { kani::any() }
    #[cfg(kani)]
    pub fn any_u32() -> u32 { kani::any() }
    #[cfg(kani)]
    pub fn any_u64() -> u64 { kani::any() }
    #[cfg(kani)]
    pub fn any_u128() -> u128 { kani::any() }
    #[cfg(kani)]
    pub fn any_usize() -> usize { kani::any() }
    #[cfg(kani)]
    pub fn any_bool() -> bool { kani::any() }
    #[cfg(kani)]
    pub fn assume(c: bool) { kani::assume(c) }

    #[cfg(not(kani))]
    mod replay {
        use std::cell::RefCell;
        thread_local! { pub static VALS: RefCell<Vec<Vec<u8>>> = RefCell::new(Vec::new()); }
        pub fn pop(n: usize) -> Vec<u8> {
            VALS.with(|v| {
                let mut v = v.borrow_mut();
                if v.is_empty() { return vec![0u8; n]; }
                let mut x = v.remove(0);
                x.resize(n, 0);
                x
            })
        }
        pub fn load() {
            let s = std::env::var("PSC_VERIF_REPLAY_VALUES").unwrap_or_default();
            let mut out = Vec::new();
            for part in s.split(';') {
                if part.trim().is_empty() { continue; }
                out.push(part.split(',').filter(|t| !t.trim().is_empty()).map(|t| t.trim().parse::<u8>().unwrap()).collect());
            }
            VALS.with(|v| *v.borrow_mut() = out);
        }
    }
    #[cfg(not(kani))]
    pub fn load_replay() { replay::load() }
    #[cfg(not(kani))]
    pub fn any_u8() -> u8 { replay::pop(1)[0] }
    #[cfg(not(kani))]
    pub fn any_u16() -> u16 { let b = replay::pop(2); u16::from_le_bytes([b[0], b[1]]) }
    #[cfg(not(kani))]
    pub fn any_u32() -> u32 { let b = replay::pop(4); u32::from_le_bytes([b[0], b[1], b[2], b[3]]) }
    #[cfg(not(kani))]
    pub fn any_u64() -> u64 { let b = replay::pop(8); let mut a = [0u8; 8]; a.copy_from_slice(&b); u64::from_le_bytes(a) }
    #[cfg(not(kani))]
    pub fn any_u128() -> u128 { let b = replay::pop(16); let mut a = [0u8; 16]; a.copy_from_slice(&b); u128::from_le_bytes(a) }
    #[cfg(not(kani))]
    pub fn any_usize() -> usize { any_u64() as usize }
    #[cfg(not(kani))]
    pub fn any_bool() -> bool { replay::pop(1)[0] != 0 }
    #[cfg(not(kani))]
    pub fn assume(c: bool) { if !c { panic!("PSC_REPLAY_ASSUMPTION_VIOLATED"); } }
}
