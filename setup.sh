#!/bin/bash
# offline setup: create cache dirs and warm the expansion build cache (dependencies compiled once)
cd "$(dirname "$0")"
mkdir -p .cache evidence replays
export CARGO_NET_OFFLINE=true
python3 - <<'PY'
import sys
sys.path.insert(0, 'tools')
import check
for c in ('std',):
    try:
        print('expanded', c, check.expand(c)[0])
    except Exception as e:
        print('setup: expansion failed:', e)
PY
exit 0
